# Claimed in DESIGN.md, check still under construction in this round: listed under not_applicable
# with that reason until the check lands (the list is kept current as checks are added).
for pid in ["C13","C14","C17","C18"]:
    PENDING[pid] = "Claimed in DESIGN.md; its simulation check is under construction and not yet registered. Not a verdict of inapplicability."
