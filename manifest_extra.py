# all claimed checks are registered
