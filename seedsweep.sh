#!/usr/bin/env bash
# seedsweep.sh [seed-id ...] : for every seeded change, apply it to /repo (git -C /repo apply), run the
# owning property's quick check (and, if that stays silent, the C17 check, which owns concurrency),
# undo it (git -C /repo checkout -- .), and append one JSON line per run to seeded/sweep.jsonl.
# Evidence and replays of these runs go to a scratch directory, never to /verif/evidence.
cd /verif
git -C /repo diff --quiet || { echo "/repo has uncommitted changes; refusing"; exit 2; }
trap 'git -C /repo checkout -- . 2>/dev/null' EXIT INT TERM
ids=("$@"); [ ${#ids[@]} -gt 0 ] || ids=($(ls seeded | grep '^C[0-9]'))
: > seeded/sweep.jsonl.tmp
for s in "${ids[@]}"; do
  owner=${s:0:3}; tried=""
  git -C /repo apply --whitespace=nowarn /verif/seeded/$s/patch.diff || { echo "$s: apply failed"; continue; }
  for p in $owner C17 C14; do
    [ "$p" = "$owner" ] && [ -n "${tried:-}" ] && continue
    R=$(mktemp -d /tmp/seedrep.XXXXXX)
    t0=$(date +%s)
    out=$(VERIF_STALL_LIMIT=400s VERIF_REPLAYS=$R VERIF_EVIDENCE=$R timeout 2400 ./vsim check $p ${SWEEP_ARGS:-} 2>&1); rc=$?
    t1=$(date +%s)
    python3 - "$s" "$p" "$rc" "$((t1-t0))" <<PY >> seeded/sweep.jsonl.tmp
import json,sys,re
out=open('/dev/stdin').read() if False else """$(echo "$out" | grep "^VIOLATION\|^  signature:\|^INFRA\|^runs=" | head -40 | sed 's/\\/\\\\/g; s/"""/'"'"''"'"''"'"'/g')"""
sigs=[l.split(': ',1)[1] for l in out.splitlines() if l.startswith('  signature:')]
runs=[l for l in out.splitlines() if l.startswith('runs=')]
print(json.dumps({"seed":sys.argv[1],"check":sys.argv[2],"exit":int(sys.argv[3]),"wall_s":int(sys.argv[4]),"signatures":sigs[:6],"infra_lines":sum(1 for l in out.splitlines() if l.startswith('INFRA')),"summary":runs[-1] if runs else ""}))
PY
    rm -rf $R
    echo "$s via $p exit=$rc"
    tried=1
    [ $rc = 1 ] && break
  done
  git -C /repo checkout -- .
done
python3 - "${ids[@]}" <<'PY'
import json,sys,os
ids=set(sys.argv[1:])
old=[l for l in open('seeded/sweep.jsonl')] if os.path.exists('seeded/sweep.jsonl') else []
keep=[l for l in old if json.loads(l)['seed'] not in ids]
new=[l for l in open('seeded/sweep.jsonl.tmp')]
rows=sorted(keep+new, key=lambda l:(json.loads(l)['seed'], json.loads(l)['check']!=json.loads(l)['seed'][:3]))
open('seeded/sweep.jsonl','w').writelines(rows)
os.remove('seeded/sweep.jsonl.tmp')
PY
