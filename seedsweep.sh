#!/usr/bin/env bash
# seedsweep.sh [seed-id ...] : run the owning quick check against every seeded change (scratch copy) and
# print "<seed> <prop> exit=<rc> <signatures>"; results appended to /tmp/seedsweep.log
cd /verif
ids=("$@"); [ ${#ids[@]} -gt 0 ] || ids=($(ls seeded | grep '^C[0-9]'))
for s in "${ids[@]}"; do
  p=${s:0:3}
  M=$(mktemp -d /tmp/seedrun.XXXXXX)
  git -C /repo archive HEAD | tar -x -C $M
  (cd $M && git init -q . >/dev/null 2>&1 && git apply --whitespace=nowarn /verif/seeded/$s/patch.diff) || { echo "$s $p apply-failed"; rm -rf $M; continue; }
  R=$(mktemp -d /tmp/seedrep.XXXXXX)
  out=$(VERIF_STALL_LIMIT=90s VERIF_REPO=$M VERIF_REPLAYS=$R VERIF_EVIDENCE=$R timeout 900 ./vsim check $p ${SWEEP_ARGS:-} 2>&1); rc=$?
  sigs=$(echo "$out" | grep "^  signature:" | sed 's/  signature: //' | head -3 | tr '\n' ';')
  infra=$(echo "$out" | grep -c "^INFRA")
  echo "$s $p exit=$rc infra=$infra $sigs" | tee -a /tmp/seedsweep.log
  rm -rf $M $R
done
