#!/usr/bin/env bash
# mut.sh <prop> <runs> <sed-or-python-edit-command...> : apply an ad-hoc edit to a scratch copy of /repo and run a check against it
# usage: mut.sh C04 50000 "python3 -c '...'"   (the command runs with cwd = scratch copy)
prop=$1; runs=$2; shift 2
M=$(mktemp -d /tmp/mut.XXXXXX)
cp -r /repo/*.go /repo/go.mod /repo/go.sum /repo/internal $M/
(cd $M && eval "$@") || { echo "edit failed"; rm -rf $M; exit 3; }
(cd $M && diff <(cd /repo && cat *.go) <(cat *.go) | head -20)
(cd $M && GOFLAGS=-mod=mod GOPROXY=off GOSUMDB=off go test -vet=off -count=1 . 2>&1 | tail -1)
mkdir -p /tmp/mutrep
VERIF_REPO=$M /verif/vsim check $prop --runs $runs 2>&1 | grep -v "^    " | head -${MUT_LINES:-14}
rm -rf $M
# restore evidence/replays produced against the mutant
git -C /verif checkout -- evidence 2>/dev/null; git -C /verif clean -fdq replays evidence 2>/dev/null
