//go:build race

package verifhook

import "runtime"

// RaceBuild reports whether the binary was built with -race.
const RaceBuild = true

//go:norace
func raceOff() { runtime.RaceDisable() }

//go:norace
func raceOn() { runtime.RaceEnable() }

// RaceErrors returns the number of race reports so far in this process.
func RaceErrors() int { return runtime.RaceErrors() }
