//go:build race

package verifhook

import (
	"runtime"
	"unsafe"
)

// RaceBuild reports whether the binary was built with -race.
const RaceBuild = true

//go:norace
func raceOff() { runtime.RaceDisable() }

//go:norace
func raceOn() { runtime.RaceEnable() }

// RaceErrors returns the number of race reports so far in this process.
func RaceErrors() int { return runtime.RaceErrors() }

//go:norace
func raceReleaseMerge(a unsafe.Pointer) { runtime.RaceReleaseMerge(a) }

//go:norace
func raceAcquire(a unsafe.Pointer) { runtime.RaceAcquire(a) }
