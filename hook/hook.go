// Package verifhook is the seam package the instrumenter (cmd/vsim-instrument) wires into a
// scratch copy of influxql. It is copied into that scratch copy as
// github.com/influxdata/influxql/verifhook so the library and the harness share one copy of its
// state. Nothing here is ever committed to /repo.
//
// Everything that touches scheduler state is //go:norace and brackets its channel operations with
// RaceDisable/RaceEnable so that ThreadSanitizer does not see the harness handoffs as
// happens-before edges between library steps (DESIGN.md §3.3).
package verifhook

import (
	"fmt"
	"sort"
	"sync"
	"time"
	"unsafe"
)

// SiteNames is filled by a generated init() in package influxql (verif_sites.go).
var SiteNames []string

// MapSiteNames is filled by the same generated init(): one entry per rewritten map range.
var MapSiteNames []string

// SiteName returns the printable name of an instrumentation site.
//
//go:norace
func SiteName(site int32) string {
	switch {
	case site == SiteOpBoundary:
		return "<op-boundary>"
	case site == SiteCallback:
		return "<service-callback>"
	case site == SiteLockWait:
		return "<lock-wait>"
	case site >= 0 && int(site) < len(SiteNames):
		return SiteNames[site]
	}
	return fmt.Sprintf("<site %d>", site)
}

const (
	SiteOpBoundary int32 = -1
	SiteCallback   int32 = -2
	SiteLockWait   int32 = -3
)

// BudgetPanic is raised inside the library goroutine when an operation exceeds its step budget.
type BudgetPanic struct {
	Steps int64
}

func (b BudgetPanic) Error() string { return fmt.Sprintf("verif: step budget exceeded (%d steps)", b.Steps) }

const (
	modeOff   = 0
	modeSolo  = 1
	modeSched = 2
)

const MaxTasks = 8

type task struct {
	wake    chan struct{}
	done    bool
	started bool
	steps   int64
	budget  int64
	noYield int
}

// Preempt is one planned context switch: at global step Step, switch to the Choice-th other
// runnable task (mod the number of runnable others).
type Preempt struct {
	Step   int64 `json:"step"`
	Choice int   `json:"choice"`
}

// AtomicPreempt switches at the Nth scheduling point that sits in front of a statement touching
// sync/atomic or sync.Map (counted over all tasks of the run).
type AtomicPreempt struct {
	N      int64 `json:"n"`
	Choice int   `json:"choice"`
}

// Switch is one context switch that actually happened.
type Switch struct {
	From int   `json:"from"`
	To   int   `json:"to"`
	Site int32 `json:"site"`
	Step int64 `json:"step"`
}

var (
	mode     int
	solo     task
	tasks    [MaxTasks]task
	nTasks   int
	cur      int
	gstep    int64
	plan     []Preempt
	planIdx  int
	trace    [8192]Switch
	traceN   int
	mainWake chan struct{}
	aborted  bool
	// per-site hit counters for the distinct-state measure (solo and sched modes)
	siteHits []uint32
	// atomic-site preemption
	siteIsAtomic []bool
	atomicSites  int
	atomicCount  int64
	atomicPlan   [16]AtomicPreempt
	atomicPlanN  int
	atomicIdx    int
)

// ---------------------------------------------------------------------------------------------
// solo mode: one task, step counting and budget only

// BeginOp starts step accounting for one operation on the calling goroutine.
//
//go:norace
func BeginOp(budget int64) {
	if mode == modeSched {
		t := &tasks[cur]
		t.steps = 0
		t.budget = budget
		t.noYield = 0
		return
	}
	mode = modeSolo
	solo.steps = 0
	solo.budget = budget
	solo.noYield = 0
}

// EndOp stops step accounting and returns the number of library function entries seen.
//
//go:norace
func EndOp() int64 {
	if mode == modeSched {
		t := &tasks[cur]
		t.budget = 0
		return t.steps
	}
	n := solo.steps
	solo.budget = 0
	mode = modeOff
	return n
}

// Steps returns the step count of the running operation.
//
//go:norace
func Steps() int64 {
	if mode == modeSched {
		return tasks[cur].steps
	}
	return solo.steps
}

// Yield is inserted as the first statement of every function and function literal of package
// influxql.
//
//go:norace
func Yield(site int32) {
	switch mode {
	case modeOff:
		return
	case modeSolo:
		solo.steps++
		if site >= 0 && int(site) < len(siteHits) {
			siteHits[site]++
		}
		if solo.budget > 0 && solo.steps > solo.budget {
			b := solo.budget
			solo.budget = 0
			panic(BudgetPanic{Steps: b})
		}
		return
	}
	t := &tasks[cur]
	t.steps++
	if site >= 0 && int(site) < len(siteHits) {
		siteHits[site]++
	}
	if t.budget > 0 && t.steps > t.budget {
		b := t.budget
		t.budget = 0
		panic(BudgetPanic{Steps: b})
	}
	gstep++
	if site >= 0 && int(site) < len(siteIsAtomic) && siteIsAtomic[site] {
		atomicCount++
		if atomicIdx < atomicPlanN && atomicCount >= atomicPlan[atomicIdx].N && t.noYield == 0 {
			c := atomicPlan[atomicIdx].Choice
			atomicIdx++
			switchFrom(cur, c, site)
			return
		}
	}
	if planIdx < len(plan) && gstep >= plan[planIdx].Step && t.noYield == 0 {
		p := plan[planIdx]
		planIdx++
		switchFrom(cur, p.Choice, site)
	}
}

// SchedAtomicPlan sets the atomic-site preemptions of the next run (call after SchedBegin).
//
//go:norace
func SchedAtomicPlan(ps []AtomicPreempt) {
	atomicPlanN = 0
	for _, p := range ps {
		if atomicPlanN < len(atomicPlan) {
			atomicPlan[atomicPlanN] = p
			atomicPlanN++
		}
	}
	atomicIdx = 0
	atomicCount = 0
}

// AtomicSiteCount is the number of scheduling points in front of atomic operations in this tree.
func AtomicSiteCount() int { return atomicSites }

// EnableSiteHits allocates the per-site counters (call once, after SiteNames is set).
//
//go:norace
func EnableSiteHits() {
	siteHits = make([]uint32, len(SiteNames))
	siteIsAtomic = make([]bool, len(SiteNames))
	atomicSites = 0
	for i, n := range SiteNames {
		for j := 0; j+8 <= len(n); j++ {
			if n[j:j+8] == ":atomic@" {
				siteIsAtomic[i] = true
				atomicSites++
				break
			}
		}
	}
}

// SiteHitsSnapshot returns the indices of sites hit since the last reset and resets them.
//
//go:norace
func SiteHitsSnapshot() []int32 {
	var out []int32
	for i, n := range siteHits {
		if n != 0 {
			out = append(out, int32(i))
			siteHits[i] = 0
		}
	}
	return out
}

// ---------------------------------------------------------------------------------------------
// lock handling (rewrite L): a task never parks while it holds a library lock.

//go:norace
func NoYieldInc() {
	switch mode {
	case modeSolo:
		solo.noYield++
	case modeSched:
		tasks[cur].noYield++
	}
}

//go:norace
func NoYieldDec() {
	switch mode {
	case modeSolo:
		if solo.noYield > 0 {
			solo.noYield--
		}
	case modeSched:
		if tasks[cur].noYield > 0 {
			tasks[cur].noYield--
		}
	}
}

// LockSpin is what `x.Lock()` / `x.RLock()` on a sync.Mutex/RWMutex is rewritten to
// (`verifhook.LockSpin(x.TryLock)`): a blocked task spins through the scheduler instead of
// blocking the process, so a lock that is never released ends in a step-budget overrun.
func LockSpin(try func() bool) {
	for !try() {
		Yield(SiteLockWait)
		lockSpinPause()
	}
	NoYieldInc()
}

//go:norace
func lockSpinPause() {
	if mode == modeOff {
		// outside any simulated operation there is no budget to stop a spin: fall back to yielding
		// the processor (init-time code, harness helpers)
		spinOutside++
		if spinOutside > 50000000 {
			panic("verifhook: lock never released outside a simulated operation")
		}
	}
}

var spinOutside int

// UnlockDeferred is what `defer x.Unlock()` is rewritten to: `defer verifhook.UnlockDeferred(x.Unlock)`.
func UnlockDeferred(unlock func()) {
	NoYieldDec()
	unlock()
}

// ---------------------------------------------------------------------------------------------
// scheduled mode

// SchedBegin prepares a run with n tasks and a pre-drawn preemption plan (sorted by Step).
//
//go:norace
func SchedBegin(n int, p []Preempt) {
	if n > MaxTasks {
		panic("verifhook: too many tasks")
	}
	nTasks = n
	for i := 0; i < n; i++ {
		tasks[i] = task{wake: make(chan struct{}, 1)}
	}
	plan = p
	planIdx = 0
	gstep = 0
	traceN = 0
	mainWake = make(chan struct{}, 1)
	aborted = false
	atomicPlanN, atomicIdx, atomicCount = 0, 0, 0
	cur = 0
	mode = modeSched
}

// SchedTaskStart is the first thing a task goroutine calls: it parks until it is given the baton.
//
//go:norace
func SchedTaskStart(id int) {
	raceOff()
	<-tasks[id].wake
	raceOn()
	tasks[id].started = true
}

// SchedTaskEnd is the last scheduler call of a task goroutine: it passes the baton on or wakes main.
//
//go:norace
func SchedTaskEnd(id int, choice int) {
	tasks[id].done = true
	to := pick(id, choice)
	if to < 0 {
		raceOff()
		mainWake <- struct{}{}
		raceOn()
		return
	}
	if traceN < len(trace) {
		trace[traceN] = Switch{From: id, To: to, Site: SiteOpBoundary, Step: gstep}
		traceN++
	}
	cur = to
	raceOff()
	tasks[to].wake <- struct{}{}
	raceOn()
}

// SchedRun gives the baton to task `first` and waits until every task has finished or the
// watchdog expires. It returns false if the watchdog fired.
//
//go:norace
func SchedRun(first int, watchdog time.Duration) bool {
	cur = first
	raceOff()
	tasks[first].wake <- struct{}{}
	ok := true
	select {
	case <-mainWake:
	case <-time.After(watchdog):
		ok = false
	}
	raceOn()
	if !ok {
		aborted = true
	}
	mode = modeOff
	return ok
}

// SchedTrace returns the switches of the last run and the total number of global steps.
//
//go:norace
func SchedTrace() ([]Switch, int64) {
	out := make([]Switch, traceN)
	copy(out, trace[:traceN])
	return out, gstep
}

// CurTask returns the id of the task holding the baton (scheduled mode), else -1.
//
//go:norace
func CurTask() int {
	if mode != modeSched {
		return -1
	}
	return cur
}

//go:norace
func pick(from, choice int) int {
	var cand [MaxTasks]int
	n := 0
	for i := 0; i < nTasks; i++ {
		if i != from && !tasks[i].done {
			cand[n] = i
			n++
		}
	}
	if n == 0 {
		return -1
	}
	if choice < 0 {
		choice = -choice
	}
	return cand[choice%n]
}

//go:norace
func switchFrom(from, choice int, site int32) {
	to := pick(from, choice)
	if to < 0 {
		return
	}
	if traceN < len(trace) {
		trace[traceN] = Switch{From: from, To: to, Site: site, Step: gstep}
		traceN++
	}
	cur = to
	raceOff()
	tasks[to].wake <- struct{}{}
	<-tasks[from].wake
	raceOn()
}

// ---------------------------------------------------------------------------------------------
// buffer-size knob (rewrite B)

var bufSize = 4096

//go:norace
func SetBufSize(n int) {
	if n < 16 {
		n = 16
	}
	bufSize = n
}

//go:norace
func BufSize() int { return bufSize }

// ---------------------------------------------------------------------------------------------
// pushback assertion (rewrite P)

type PushbackStat struct {
	Max      int `json:"max"`
	Cap      int `json:"cap"`
	Overflow int `json:"overflow"`
	Calls    int `json:"calls"`
}

// No maps here: the runtime's map accessors report to the race detector even when called from a
// //go:norace function, which would turn this bookkeeping into false race reports.
type pushbackEntry struct {
	kind string
	st   PushbackStat
}

var pushback [8]pushbackEntry
var pushbackN int
var pushbackOverflow int

// Pushback is called after the increment in bufScanner.Unscan / reader.unread.
//
//go:norace
func Pushback(kind string, n, capacity int) {
	var st *PushbackStat
	for i := 0; i < pushbackN; i++ {
		if pushback[i].kind == kind {
			st = &pushback[i].st
			break
		}
	}
	if st == nil {
		if pushbackN >= len(pushback) {
			return
		}
		pushback[pushbackN].kind = kind
		st = &pushback[pushbackN].st
		pushbackN++
	}
	st.Calls++
	st.Cap = capacity
	if n > st.Max {
		st.Max = n
	}
	if n > capacity {
		st.Overflow++
		pushbackOverflow++
	}
}

// PushbackOverflows returns the number of ring overflows since the last reset and resets it.
//
//go:norace
func PushbackOverflows() int {
	n := pushbackOverflow
	pushbackOverflow = 0
	return n
}

// PushbackStats returns a copy of the per-ring statistics (call from the main goroutine only).
func PushbackStats() map[string]PushbackStat {
	out := map[string]PushbackStat{}
	for i := 0; i < pushbackN; i++ {
		out[pushback[i].kind] = pushback[i].st
	}
	return out
}

// ResetPushbackMax clears the per-ring maxima (so that depth probes are per run).
//
//go:norace
func ResetPushbackMax() {
	for i := 0; i < pushbackN; i++ {
		pushback[i].st.Max = 0
	}
}

// ---------------------------------------------------------------------------------------------
// map-order seam (rewrite M). Not norace on purpose: the reads of the library's map must stay
// visible to the race detector exactly as the original `range` was.

const (
	OrderAsc = iota
	OrderDesc
	OrderRot
	OrderShuffle
	OrderPermAt // Arg-th permutation (Lehmer) at site Site, ascending elsewhere
)

type OrderPolicy struct {
	Kind int    `json:"kind"`
	Arg  uint64 `json:"arg"`
	Site int32  `json:"site"`
}

var order OrderPolicy

// MapSiteStat counts, per map-range site, how often it ran and how often with >= 2 keys.
type MapSiteStat struct {
	Calls int `json:"calls"`
	Multi int `json:"multi"`
	MaxN  int `json:"max_n"`
}

var mapStats [512]MapSiteStat
var mapStatsN int

func SetOrder(p OrderPolicy) { order = p }

// ResetMapStats clears the per-site statistics (call between runs, on the main goroutine).
func ResetMapStats() {
	for i := range mapStats {
		mapStats[i] = MapSiteStat{}
	}
}

func MapSiteStats() []MapSiteStat {
	out := make([]MapSiteStat, mapStatsN)
	copy(out, mapStats[:mapStatsN])
	return out
}

//go:norace
func mapStat(site int32, n int) {
	if site < 0 || int(site) >= len(mapStats) {
		return
	}
	if int(site) >= mapStatsN {
		mapStatsN = int(site) + 1
	}
	st := &mapStats[site]
	st.Calls++
	if n >= 2 {
		st.Multi++
	}
	if n > st.MaxN {
		st.MaxN = n
	}
}

type keyed[K any] struct {
	s string
	k K
}

// MapKeys returns the keys of m in the order chosen by the current policy.
func MapKeys[M ~map[K]V, K comparable, V any](m M, site int32) []K {
	n := len(m)
	mapStat(site, n)
	if n == 0 {
		return nil
	}
	ks := make([]keyed[K], 0, n)
	for k := range m {
		var s string
		switch x := any(k).(type) {
		case string:
			s = x
		default:
			s = fmt.Sprintf("%#v", k)
		}
		ks = append(ks, keyed[K]{s, k})
	}
	sort.Slice(ks, func(i, j int) bool { return ks[i].s < ks[j].s })
	out := make([]K, n)
	p := order
	kind := p.Kind
	if kind == OrderPermAt && p.Site != site {
		kind = OrderAsc
	}
	switch kind {
	case OrderDesc:
		for i := range ks {
			out[i] = ks[n-1-i].k
		}
	case OrderRot:
		r := int(p.Arg % uint64(n))
		for i := range ks {
			out[i] = ks[(i+r)%n].k
		}
	case OrderShuffle:
		idx := make([]int, n)
		for i := range idx {
			idx[i] = i
		}
		x := p.Arg ^ (uint64(site)+1)*0x9E3779B97F4A7C15
		for i := n - 1; i > 0; i-- {
			x += 0x9E3779B97F4A7C15
			z := x
			z = (z ^ (z >> 30)) * 0xBF58476D1CE4E5B9
			z = (z ^ (z >> 27)) * 0x94D049BB133111EB
			z ^= z >> 31
			j := int(z % uint64(i+1))
			idx[i], idx[j] = idx[j], idx[i]
		}
		for i := range idx {
			out[i] = ks[idx[i]].k
		}
	case OrderPermAt:
		// Lehmer decode of Arg over n elements.
		avail := make([]int, n)
		for i := range avail {
			avail[i] = i
		}
		code := p.Arg
		fact := uint64(1)
		for i := 2; i < n; i++ {
			fact *= uint64(i)
		}
		for i := 0; i < n; i++ {
			d := int(code / fact)
			if d >= len(avail) {
				d = len(avail) - 1
			}
			code %= fact
			out[i] = ks[avail[d]].k
			avail = append(avail[:d], avail[d+1:]...)
			if n-1-i > 0 {
				fact /= uint64(n - 1 - i)
			}
		}
	default:
		for i := range ks {
			out[i] = ks[i].k
		}
	}
	return out
}

// ---------------------------------------------------------------------------------------------
// sync.Pool seam (rewrite S): a deterministic LIFO pool per *sync.Pool. The real pool drops items
// at random under the race detector and hands them over per-P, so failures that involve a pool
// would neither replay nor minimise. Happens-before is kept exactly as the real pool has it: a
// release on Put and an acquire on Get, keyed by the object's address.

type poolSlot struct {
	p     *sync.Pool
	items [128]interface{}
	n     int
}

var pools [32]poolSlot
var poolsN int

//go:norace
func poolFor(p *sync.Pool) *poolSlot {
	for i := 0; i < poolsN; i++ {
		if pools[i].p == p {
			return &pools[i]
		}
	}
	if poolsN >= len(pools) {
		return nil
	}
	pools[poolsN].p = p
	poolsN++
	return &pools[poolsN-1]
}

//go:norace
func dataWord(x interface{}) unsafe.Pointer {
	return (*[2]unsafe.Pointer)(unsafe.Pointer(&x))[1]
}

// PoolPut replaces p.Put(x).
//
//go:norace
func PoolPut(p *sync.Pool, x interface{}) {
	if x == nil {
		return
	}
	s := poolFor(p)
	if s == nil || s.n >= len(s.items) {
		return // full: dropped, as a real pool may
	}
	if a := dataWord(x); a != nil {
		raceReleaseMerge(a)
	}
	s.items[s.n] = x
	s.n++
}

// PoolGet replaces p.Get().
//
//go:norace
func PoolGet(p *sync.Pool) interface{} {
	s := poolFor(p)
	if s != nil && s.n > 0 {
		s.n--
		x := s.items[s.n]
		s.items[s.n] = nil
		if a := dataWord(x); a != nil {
			raceAcquire(a)
		}
		return x
	}
	if p.New != nil {
		return p.New()
	}
	return nil
}
