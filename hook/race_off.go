//go:build !race

package verifhook

import "unsafe"

const RaceBuild = false

func raceOff() {}
func raceOn()  {}

func RaceErrors() int { return 0 }

func raceReleaseMerge(a unsafe.Pointer) {}
func raceAcquire(a unsafe.Pointer)      {}
