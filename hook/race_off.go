//go:build !race

package verifhook

const RaceBuild = false

func raceOff() {}
func raceOn()  {}

func RaceErrors() int { return 0 }
