#!/usr/bin/env python3
"""Regenerates MANIFEST.json from the table below (kept as code so that the file stays valid)."""
import json, sys
NA = {
 "C01": "Pure function text -> AST; no schedule, clock, fault or history in the statement. The stream surface can change whether bytes arrive, not which AST a text denotes. Needs grammar-directed input generation with an intent oracle, which is input-space testing, not simulation (DESIGN.md §4 C01).",
 "C02": "Parse∘String is a pure function of one AST; no state, stream fault, interleaving or time participates (DESIGN.md §4 C02).",
 "C03": "Pure function of a token chain; decided by bounded enumeration of operator chains against a reference, not by seeded search over schedules or faults (DESIGN.md §4 C03).",
 "C06": "Pure string->string/token functions (strings.Replacer is stateless after construction); no stream fault, schedule or history can change the result. Concurrent use of the shared replacers is covered by C17 (DESIGN.md §4 C06).",
 "C07": "Pure function of (template text, parameter map): Parser.params is per parser, SetParams treats keys independently, re-scan after pushback is deterministic per input. Parameter maps are part of the C04 workload with the totality oracle only (DESIGN.md §4 C07).",
 "C08": "Pure integer arithmetic on one string / one int64 (DESIGN.md §4 C08).",
 "C09": "Reduce and Eval are pure functions of (expression, bindings); the clock is a field of NowValuer chosen by the caller, the package never reads a real clock, so there is no time source to simulate (DESIGN.md §4 C09).",
 "C10": "Pure function of (condition, valuer); same remark about the clock as C09 (DESIGN.md §4 C10).",
 "C11": "Pure function of a regex syntax tree, decided by comparing languages on enumerated strings (DESIGN.md §4 C11).",
 "C15": "Pure text->text (two regular expressions) and AST->text; no fault, schedule or history. Shared use of the compiled patterns across goroutines is covered by C17 (DESIGN.md §4 C15).",
 "C16": "Equivalence of two texts under layout changes, a pure function of the input; decided by enumerating gaps and substitutions, not schedules or faults. Multi-statement streams go through the fault-injecting reader in C04 with the totality and delivery-independence oracles only (DESIGN.md §4 C16).",
 "C19": "Pure function AST -> privilege list; nothing stateful, timed or faulty (DESIGN.md §4 C19).",
 "C20": "Pure function of the field list; the de-duplication map is local to the call. Concurrent calls on a shared statement are covered by C17's result-equality oracle (DESIGN.md §4 C20).",
}
CHECKS = {}
def check(pid, engine, cat, text, note, tech, ref):
    CHECKS[pid] = {
        "property_id": pid,
        "quick_cmd": f"./vsim check {pid} --tier quick",
        "thorough_cmd": f"./vsim check {pid} --tier thorough",
        "evidence_file": f"/verif/evidence/{pid}.json",
        "replay_cmd_template": "./vsim replay {path}",
        "engine": engine,
        "level_claimed": {"category": cat, "text": text, "design_ref": ref},
        "level_note": note,
        "technique": tech,
    }

check("C12", "schemasim", "exploration",
  "Seeded exploration: RewriteFields is executed against a simulated schema service under a set of map-iteration-order policies per case (ascending, descending, rotations, seeded shuffles, and every permutation at map-range sites with <=4 keys), with mapper failures injected at chosen call indices. Oracles: results, errors and the sequence of mapper calls are identical across all orders; fault-free results refine a ~300-line reference expansion written from the property text; under mapper faults the call fails or returns the full expansion, never a partial one; no panic; receiver unchanged. Sampling over (statement, schema) pairs, so evidence not proof.",
  "Trusts the parser for the input AST (C01), the model's transcription of the documented per-function type support, and that the order policies are a superset of runtime map orders. Corners the property text does not settle are checked for determinism only and counted as model-unsettled:* probes.",
  "deterministic simulation: seeded map-order seam + fault-injecting schema-service stub + reference-model refinement", "DESIGN.md §4 C12")

check("C04", "streamsim", "exploration",
  "Seeded exploration of the parser driven through a simulated input stream: every run draws a byte string (valid statements, byte-mutated statements, token soups, deep/long inputs, parameter templates), an entry point, a parameter map, a bufio size and a delivery schedule (chunk sizes incl. zero-length reads, a permanent EOF/error at a chosen offset with or without final data, plus a non-contract stratum of transient errors, EOF-then-more and stalls). Invariants per run: no panic; exactly one of result/error; step-bounded termination (absolute budget in library function entries per input byte, and a constant-free doubling test on families unit^n / unit^2n); Read-call bound; the 3-slot pushback rings never overflow; the outcome is independent of the delivery schedule and a stream cut at k equals a clean parse of the first k bytes; returned results print, walk and clone without panic; further parses in the same process (sessions) still terminate. Failures that need earlier operations in the same process are reported with the minimal prelude. Sampling, so evidence not proof.",
  "Time is measured in simulated steps (function entries) and Read calls, not seconds. Nesting explored to 2*10^4 levels only. The quantifier over all byte strings and bindings is sampled by the generator. Non-contract stream behaviour is judged by the crash/termination oracle only.",
  "deterministic simulation: fault-injecting simulated input stream + step-budget scheduler hook + truncation-equivalence reference", "DESIGN.md §4 C04")
check("C05", "streamsim", "fault_enumeration",
  "For each sampled text (token soups over every token spelling, CR/LF/CRLF mixes, multi-byte and invalid UTF-8, comments, unterminated strings, bad escapes, mutated statements) EVERY truncation offset is enumerated as a crash point, for EOF and for error terminals, under three delivery policies and a drawn bufio size. After every Scan the bytes consumed are computed from I/O accounting (delivered - buffered - pending pushback), giving token extents independent of the positions under test. Invariants: EOF within len+2 tokens and sticky; extents tile the text exactly; every token position equals an independent zero-based line/column counter (CRLF / lone CR one break); tokens far enough from the cut are identical to the fault-free scan; ParseError positions (all three entry points) point at the token they name and an error value does not change when a later parse fails; the token stream is identical under every delivery schedule and terminal kind; a scanner created after another one reached EOF scans its text as it would alone. Exhaustive over crash points per text, sampled over texts.",
  "Token extents rely on reading bufio.Reader.Buffered() and the scanner's pushback ring through reflect/unsafe; if those fields cannot be found the tiling probe is reported off. Position defects that the repository's own tests encode are listed in known_findings.json (six keys) (each keyed by what the wrong position IS, so any other wrong position is still a violation).",
  "deterministic simulation: crash-point enumeration over a simulated input stream with I/O-accounting tiling oracle", "DESIGN.md §4 C05")

check("C13", "opsim", "exploration",
  "Seeded exploration of operation sequences: a generated statement (biased towards accepted-but-odd shapes: zero/too-few/surplus arguments, zero or negative intervals, fractional divisors, wildcards and regexes in odd places, unknown functions) is parsed and a drawn sequence of 1-12 public operations is applied to it (printing, cloning, walking, all rewrites, wildcard expansion, Reduce, Eval/EvalBool/EvalType, ConditionExpr, SetTimeRange, GROUP BY interval/offset/Normalize, column and field names, privileges ...), each against a simulated schema service with an injected fault schedule and a valuer composed of a stub (wrong-kind, NaN, extreme values) and the package's own NowValuer / MapValuer / MultiValuer on a simulated clock and zone; the type mapper is the stub, MultiTypeMapper around it, or nil. In-place rewrites and kept results change what later operations see. Invariant: no operation panics or exceeds its step budget. A sampled crash oracle, exhaustive over nothing; stronger than the suite, which never sequences operations nor uses failing services.",
  "The quantifier over accepted statements is sampled by the generator. Rewriters handed to Rewrite/RewriteExpr are type-preserving. Sources.MarshalBinary is not in the property's list of operations and is not exercised.",
  "deterministic simulation: seeded operation histories against fault-injecting schema-service and valuer stubs, panic/step-budget invariant", "DESIGN.md §4 C13")
check("C14", "opsim", "exploration",
  "Seeded exploration of mutation histories over a statement cache: a generated SELECT (INTO target, subqueries, regex sources, every clause) is parsed; owners clone it (and clone clones, and CloneExpr sub-trees), poke single mutable sites, run in-place rewrites (incl. rewriters that edit nodes in place) and derived operations (Reduce, RewriteFields under mapper faults, evaluation, printing, names, privileges) in a drawn interleaving. After every step every AST is re-fingerprinted over its exported structure: clones equal their source at clone time; a step by one owner changes no other AST; a derived operation changes nothing, also when the mapper fails midway; results are fresh trees. In the exhaustive stratum every mutable site of the statement and of its clone is poked once (exhaustive over the mutation sites of that AST).",
  "Structural identity is judged on exported fields (the unexported GroupByInterval memo is not observable). Sharing of immutable values (*regexp.Regexp, *time.Location) is allowed because independence is checked behaviourally. Statements and histories are sampled.",
  "deterministic simulation: seeded multi-owner mutation histories with structural-fingerprint invariants after every step, exhaustive mutable-site enumeration per AST", "DESIGN.md §4 C14")
check("C17", "schedsim", "exploration",
  "Deterministic scheduling of real goroutines: 2-6 caller tasks run scripts of independent work (parse — valid statements, salted literals, token soups and near-miss statements that fail at a node of the shared dispatch tree —, print, quote, format, sanitize, lookup) and read-only operations on 1-2 shared ASTs; a pre-drawn plan decides which task runs and where it is preempted (library function entries, schema-service/valuer callbacks, statements touching sync/atomic or sync.Map, operation boundaries). The binary is built with -race; the scheduler's handoffs are hidden from ThreadSanitizer (norace functions, RaceDisable around channel operations), so the tasks are causally unordered for the detector while execution is serial and replayable. Oracles: no data race with a library frame; every result equals the result of the same call made alone on a fresh parse with the same services; no panic or budget overrun that the sequential twin does not show; in a third of the runs the reference results are taken before and after the concurrent phase and must agree. Tasks may share one immutable schema service, a further shared statement of any kind, and do in-place work on statements of their own. Lazily filled process-wide state is kept cold by running the concurrent phase before the reference phase and by salting literals; failures that need earlier operations in the same process are reported with their minimal prelude.",
  "Yield granularity is function entry / callbacks / atomic statements / op boundaries; interleavings inside standard-library calls are not controlled. ThreadSanitizer keeps a bounded access history per word. Library-spawned goroutines or channel waits would only hit the watchdog (exit 2). GroupByInterval/GroupByOffset on shared ASTs and in-place rewrites are excluded as the property says.",
  "deterministic simulation: plan-driven cooperative scheduler over real goroutines with the Go race detector as oracle plus sequential-twin result equality", "DESIGN.md §3.3, §4 C17")
check("C18", "clocksim", "exploration",
  "Discrete-event simulation of a continuous-query service on a simulated clock: a runner (interval, offset, RESAMPLE EVERY/FOR, zone) computes its window at every tick and calls SetTimeRange on the same cached statement, under clock faults (forward jumps with skip or catch-up bursts, backward jumps, duplicate ticks, zero-length windows, non-UTC windows, sub-second and extreme instants). The initial WHERE clause is generated with intent metadata (tag/field predicates under AND/OR/parentheses, 0-4 time bounds in every written form). After every call the selection of the statement, computed by an independent evaluator over the AST now in Condition, must equal nonTime(point) AND start <= t < end on all boundary points (1 ns around every bound ever written x all predicate-relevant tag/field combinations); the condition must not grow; the call must return nil.",
  "The continuous-query service is a stub (window arithmetic + the SetTimeRange call). The observed selection is computed by the harness's own evaluator, not by ConditionExpr/EvalBool. Initial conditions follow the property's quantifier (time bounds joined by AND; OR among non-time predicates only).",
  "deterministic simulation: discrete-event clock with injected clock faults driving SetTimeRange histories, selection refinement against a reference model", "DESIGN.md §4 C18")

PENDING = {}
def main():
    engines = [
      {"name": "streamsim", "path": "sim/engines/streamsim.go, sim/engines/lexsim.go, sim/simstream", "serves_properties": ["C04", "C05"], "kind_free_text": "parser and scanner behind a simulated, fault-injecting io.Reader"},
      {"name": "opsim", "path": "sim/engines/opsim.go, sim/engines/clonesim.go, sim/simschema", "serves_properties": ["C13", "C14"], "kind_free_text": "operation and mutation histories over parsed statements with failing schema service and odd valuers"},
      {"name": "schedsim", "path": "sim/engines/schedsim.go, hook/hook.go", "serves_properties": ["C17"], "kind_free_text": "plan-driven scheduler over real goroutines, race detector as oracle"},
      {"name": "clocksim", "path": "sim/engines/clocksim.go", "serves_properties": ["C18"], "kind_free_text": "discrete-event clock driving a continuous-query stub"},
      {"name": "schemasim", "path": "sim/engines/schemasim.go", "serves_properties": ["C12"], "kind_free_text": "map-order seam + failing schema service + reference expansion model"},
    ]
    na = [{"property_id": k, "reason": v} for k, v in sorted(NA.items())]
    for k, v in sorted(PENDING.items()):
        na.append({"property_id": k, "reason": v})
    m = {
      "version": 1,
      "setup_cmd": "./vsim setup",
      "hooks": {
        "guard": "verif",
        "enable": "No hook is committed in /repo. Every check copies /repo's working tree to /var/tmp/verif.XXXXXX, rewrites the copy with /verif/instrument (yields at every function entry, loop iteration and atomic operation; map-range order seam; lock spinning; sync.Pool seam; bufio size knob; pushback assertion), adds the package /verif/hook as influxql/verifhook, and builds the engine with -tags verif (and -race for C17) against that copy.",
        "baseline_off_cmd": "cd /repo && GOFLAGS=-mod=mod GOPROXY=off GOSUMDB=off go test -json -vet=off -count=1 -timeout 25m ./...",
        "source_commits": [],
        "add_only": True,
      },
      "engines": engines,
      "checks": [CHECKS[k] for k in sorted(CHECKS)],
      "not_applicable": na,
      "notes": "Technique: deterministic simulation with fault injection. Exit codes of every command: 0 held / 1 VIOLATION / 2 infrastructure. Known findings: /verif/known_findings.json (five open C05 position findings that the repository's own tests encode; ten fix: commits in /repo recorded as fixed). Sensitivity: 111 seeded changes in /verif/seeded (RESULTS.md), all reported; 31 property-preserving refactorings in /verif/benign, all silent. ./vsim selftest determinism|sensitivity. See DESIGN.md.",
    }
    json.dump(m, open("/verif/MANIFEST.json", "w"), indent=1)
    print("MANIFEST.json written:", len(m["checks"]), "checks,", len(na), "not applicable")
if __name__ == "__main__":
    exec(open("/verif/manifest_extra.py").read()) if __import__("os").path.exists("/verif/manifest_extra.py") else None
    main()
