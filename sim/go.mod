module verifsim

go 1.23

require github.com/influxdata/influxql v0.0.0

// Placeholder: every build uses -modfile with a replace that points at the instrumented scratch
// copy of /repo's working tree (see /verif/vsim). This file only marks the module root.
replace github.com/influxdata/influxql => /repo
