// vsimeng is the simulation engine binary. It is built by /verif/vsim against an instrumented
// scratch copy of /repo's working tree; see DESIGN.md §3.
package main

import (
	"encoding/json"
	"flag"
	"fmt"
	"os"
	"runtime"
	"strconv"
	"time"

	"github.com/influxdata/influxql/verifhook"

	"verifsim/core"
	"verifsim/engines"
)

func engineFor(prop string) core.Engine {
	for _, e := range engines.All() {
		if e.Meta().Property == prop {
			return e
		}
	}
	return nil
}

func main() {
	if len(os.Args) < 2 {
		fmt.Fprintln(os.Stderr, "usage: vsimeng check|worker|replay|selftest ...")
		os.Exit(2)
	}
	verifhook.EnableSiteHits()
	core.SiteSnapshot = verifhook.SiteHitsSnapshot
	core.SiteNamesFn = func() []string { return verifhook.SiteNames }
	switch os.Args[1] {
	case "check":
		fs := flag.NewFlagSet("check", flag.ExitOnError)
		prop := fs.String("prop", "", "property id")
		tier := fs.String("tier", "quick", "quick|thorough")
		seed := fs.Uint64("seed", 1, "VERIF_SEED")
		workers := fs.Int("workers", runtime.NumCPU(), "worker processes")
		scratch := fs.String("scratch", "", "scratch directory")
		replays := fs.String("replays", "", "replay directory")
		evidence := fs.String("evidence", "", "evidence file")
		known := fs.String("known", "", "known findings file")
		tree := fs.String("tree", "", "tree hash")
		instr := fs.String("instrument-report", "", "instrumenter report (JSON file)")
		runs := fs.Uint64("runs", 0, "override the number of runs")
		deadline := fs.Duration("deadline", 0, "wall-clock safety cap per worker")
		_ = fs.Parse(os.Args[2:])
		e := engineFor(*prop)
		if e == nil {
			fmt.Fprintf(os.Stderr, "no engine for property %q\n", *prop)
			os.Exit(2)
		}
		if e.Meta().NeedsRace && !verifhook.RaceBuild {
			fmt.Fprintf(os.Stderr, "INFRA: property %s needs a -race build\n", *prop)
			os.Exit(2)
		}
		self, _ := os.Executable()
		var ir []byte
		if *instr != "" {
			ir, _ = os.ReadFile(*instr)
		}
		os.Exit(core.Check(e, core.CheckOpts{Tier: *tier, Seed: *seed, Workers: *workers, Scratch: *scratch, ReplayDir: *replays, Evidence: *evidence, KnownPath: *known, TreeHash: *tree, Self: self, Instrument: ir, Deadline: *deadline, RunsOverride: *runs}))
	case "worker":
		fs := flag.NewFlagSet("worker", flag.ExitOnError)
		prop := fs.String("prop", "", "")
		tier := fs.String("tier", "quick", "")
		seed := fs.Uint64("seed", 1, "")
		shard := fs.Int("shard", 0, "")
		of := fs.Int("of", 1, "")
		runs := fs.Uint64("runs", 0, "")
		known := fs.String("known", "", "")
		out := fs.String("out", "", "")
		deadline := fs.Duration("deadline", 0, "")
		_ = fs.Parse(os.Args[2:])
		e := engineFor(*prop)
		if e == nil {
			os.Exit(2)
		}
		kf, err := core.LoadKnown(*known)
		if err != nil {
			fmt.Fprintln(os.Stderr, err)
			os.Exit(2)
		}
		if err := core.Worker(e, *tier, *seed, *shard, *of, *runs, kf, *out, *deadline); err != nil {
			fmt.Fprintln(os.Stderr, err)
			os.Exit(2)
		}
	case "replay":
		if len(os.Args) < 3 {
			os.Exit(2)
		}
		prop, err := core.ReplayProperty(os.Args[2])
		if err != nil {
			fmt.Fprintln(os.Stderr, err)
			os.Exit(2)
		}
		e := engineFor(prop)
		if e == nil {
			fmt.Fprintf(os.Stderr, "no engine for property %q\n", prop)
			os.Exit(2)
		}
		os.Exit(core.ReplayFile(e, os.Args[2]))
	case "twin":
		// reference results of a C17 plan in this (fresh) process: vsimeng twin <plan.json>
		b, err := os.ReadFile(os.Args[2])
		if err != nil {
			os.Exit(2)
		}
		p, err := (engines.C17{}).Decode(b)
		if err != nil {
			os.Exit(2)
		}
		out, _ := json.Marshal(engines.TwinOnly(p.(*engines.C17Plan)))
		os.Stdout.Write(out)
	case "plan":
		// print the plan of run i (debugging aid): vsimeng plan <prop> <tier> <seed> <i>
		e := engineFor(os.Args[2])
		seed, _ := strconv.ParseUint(os.Args[4], 10, 64)
		i, _ := strconv.ParseUint(os.Args[5], 10, 64)
		r := core.NewRand(core.Mix(seed, os.Args[2], i))
		p := e.NewPlan(r, os.Args[3], i)
		os.Stdout.Write(core.PlanJSON(p))
		fmt.Println()
		res := e.Exec(p)
		fmt.Printf("violations=%v skipped=%q nontrivial=%v probes=%v faults=%v steps=%d\n", res.Violations, res.Skipped, res.Nontrivial, res.Probes, res.Faults, res.Steps)
	default:
		fmt.Fprintf(os.Stderr, "unknown command %q\n", os.Args[1])
		os.Exit(2)
	}
	_ = time.Now
}
