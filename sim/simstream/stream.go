// Package simstream is the simulated input source (socket, file, stdin) behind the io.Reader the
// parser and scanner are given (DESIGN.md §3.4). A stub; everything it does is pre-drawn.
package simstream

import (
	"errors"
	"io"
)

// Plan is the delivery schedule of one stream.
type Plan struct {
	// Chunks are the sizes of successive deliveries, cycled; 0 is a zero-length read (0, nil).
	Chunks []int `json:"chunks"`
	// Cut >= 0: after Cut bytes have been delivered the stream dies (permanently) the way CutKind
	// says. Cut < 0: the stream ends with io.EOF after the last byte.
	Cut     int    `json:"cut"`
	CutKind string `json:"cut_kind,omitempty"` // eof | err | unexpected-eof | data+eof | data+err
	// Non-contract behaviour (crash/termination oracle only):
	TransientAt []int `json:"transient_at,omitempty"` // byte offsets at which one Read fails, then delivery resumes
	EOFThenMore []int `json:"eof_then_more,omitempty"`
	StallAt     int   `json:"stall_at,omitempty"` // offset at which a burst of zero reads starts
	StallLen    int   `json:"stall_len,omitempty"`
}

var ErrInjected = errors.New("injected: connection reset by peer")

// Stream implements io.Reader over a byte string according to a Plan.
type Stream struct {
	data  []byte
	p     Plan
	end   int // effective end (cut or len)
	pos   int
	ci    int
	perm  error
	stall int
	fired map[int]bool // one-off faults already fired, by offset (transient: +0, eof-then-more: +1<<30)

	Reads     int
	ZeroReads int
	Delivered int
	Fired     map[string]int
}

func New(data []byte, p Plan) *Stream {
	s := &Stream{data: data, p: p, end: len(data), Fired: map[string]int{}, fired: map[int]bool{}}
	if p.Cut >= 0 && p.Cut < len(data) {
		s.end = p.Cut
	}
	if len(s.p.Chunks) == 0 {
		s.p.Chunks = []int{1 << 20}
	}
	return s
}

func (s *Stream) terminal() error {
	switch s.p.CutKind {
	case "err", "data+err":
		return ErrInjected
	case "unexpected-eof":
		return io.ErrUnexpectedEOF
	}
	return io.EOF
}

func contains(xs []int, x int) bool {
	for _, y := range xs {
		if x == y {
			return true
		}
	}
	return false
}

// ReadBudgetPanic is raised by Read when the consumer keeps polling far beyond anything a
// conforming consumer needs (an unbounded retry loop that makes no other library call).
type ReadBudgetPanic struct{ Reads int }

func (r ReadBudgetPanic) Error() string {
	return "verif: step budget exceeded (stream polled " + itoa(r.Reads) + " times)"
}

func itoa(n int) string {
	if n == 0 {
		return "0"
	}
	var b [20]byte
	i := len(b)
	for n > 0 {
		i--
		b[i] = byte('0' + n%10)
		n /= 10
	}
	return string(b[i:])
}

func (s *Stream) Read(b []byte) (int, error) {
	s.Reads++
	if s.Reads > 4*len(s.data)+2000+4*s.ZeroReads+2*s.p.StallLen {
		panic(ReadBudgetPanic{Reads: s.Reads})
	}
	if s.perm != nil {
		return 0, s.perm
	}
	if len(b) == 0 {
		return 0, nil
	}
	// one-off, non-contract faults
	if contains(s.p.TransientAt, s.pos) && !s.fired[s.pos] {
		s.fired[s.pos] = true
		s.Fired["transient"]++
		return 0, ErrInjected
	}
	if contains(s.p.EOFThenMore, s.pos) && !s.fired[s.pos+1<<30] {
		s.fired[s.pos+1<<30] = true
		s.Fired["eof-then-more"]++
		return 0, io.EOF
	}
	if s.p.StallLen > 0 && s.pos >= s.p.StallAt && s.stall < s.p.StallLen {
		s.stall++
		s.ZeroReads++
		s.Fired["stall"]++
		return 0, nil
	}
	if s.pos >= s.end {
		s.perm = s.terminal()
		s.Fired["end:"+s.kind()]++
		return 0, s.perm
	}
	k := s.p.Chunks[s.ci%len(s.p.Chunks)]
	s.ci++
	if k == 0 {
		s.ZeroReads++
		s.Fired["zero-read"]++
		return 0, nil
	}
	n := k
	if n > len(b) {
		n = len(b)
	}
	if n > s.end-s.pos {
		n = s.end - s.pos
	}
	if n < k {
		s.Fired["short-read"]++
	}
	copy(b, s.data[s.pos:s.pos+n])
	s.pos += n
	s.Delivered += n
	if s.pos >= s.end && (s.p.CutKind == "data+eof" || s.p.CutKind == "data+err") {
		// final bytes together with the error, as io.Reader allows
		s.perm = s.terminal()
		s.Fired["end:"+s.kind()]++
		return n, s.perm
	}
	return n, nil
}

func (s *Stream) kind() string {
	if s.p.CutKind == "" {
		return "eof"
	}
	return s.p.CutKind
}

// Contract reports whether the plan only does what every conforming io.Reader may do.
func (p Plan) Contract() bool {
	// bufio gives up (io.ErrNoProgress) after 100 consecutive empty reads; a stall burst can be
	// extended by the zero-length entries of the chunk cycle, so count them in.
	zeros := 0
	for _, c := range p.Chunks {
		if c == 0 {
			zeros++
		}
	}
	return len(p.TransientAt) == 0 && len(p.EOFThenMore) == 0 && p.StallLen+2*zeros < 100
}
