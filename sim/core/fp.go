package core

import (
	"fmt"
	"reflect"
	"regexp"
	"strconv"
	"strings"
	"time"
)

// Lines returns the exported-structure fingerprint of v as a list of "path=value" lines
// (DESIGN.md §3.7): exported fields only, type names, scalar values, regexps and locations by
// String(), nil-ness and lengths. Two ASTs are structurally identical iff their lines are equal.
func Lines(v interface{}) []string {
	var out []string
	walkFP(reflect.ValueOf(v), "", &out, 0)
	return out
}

// FP is Lines joined; cheap to compare and to hash.
func FP(v interface{}) string { return strings.Join(Lines(v), "\n") }

// Diff returns the first differing line pair of two fingerprints ("" if equal).
func Diff(a, b []string) string {
	n := len(a)
	if len(b) < n {
		n = len(b)
	}
	for i := 0; i < n; i++ {
		if a[i] != b[i] {
			return a[i] + "  !=  " + b[i]
		}
	}
	if len(a) > n {
		return a[n] + "  !=  <missing>"
	}
	if len(b) > n {
		return "<missing>  !=  " + b[n]
	}
	return ""
}

// DiffPath returns only the path (left of '=') of the first difference, with slice indices
// replaced by [] so that it can serve as a stable finding key.
func DiffPath(a, b []string) string {
	d := Diff(a, b)
	if d == "" {
		return ""
	}
	p := d
	if i := strings.Index(p, "  !=  "); i >= 0 {
		l, r := p[:i], p[i+6:]
		if l == "<missing>" {
			p = r
		} else {
			p = l
		}
	}
	if i := strings.IndexByte(p, '='); i >= 0 {
		p = p[:i]
	}
	return stripIdx.ReplaceAllString(p, "[]")
}

var stripIdx = regexp.MustCompile(`\[\d+\]`)

var (
	tRegexp = reflect.TypeOf((*regexp.Regexp)(nil))
	tLoc    = reflect.TypeOf((*time.Location)(nil))
	tTime   = reflect.TypeOf(time.Time{})
)

const maxFPDepth = 400

func walkFP(v reflect.Value, path string, out *[]string, depth int) {
	if depth > maxFPDepth {
		*out = append(*out, path+"=<deep>")
		return
	}
	if !v.IsValid() {
		*out = append(*out, path+"=<nil>")
		return
	}
	switch v.Type() {
	case tRegexp:
		if v.IsNil() {
			*out = append(*out, path+"=regexp(nil)")
		} else {
			*out = append(*out, path+"=regexp("+v.Interface().(*regexp.Regexp).String()+")")
		}
		return
	case tLoc:
		if v.IsNil() {
			*out = append(*out, path+"=loc(nil)")
		} else {
			*out = append(*out, path+"=loc("+v.Interface().(*time.Location).String()+")")
		}
		return
	case tTime:
		t := v.Interface().(time.Time)
		*out = append(*out, path+"=time("+strconv.FormatInt(t.UnixNano(), 10)+","+t.Location().String()+")")
		return
	}
	switch v.Kind() {
	case reflect.Interface:
		if v.IsNil() {
			*out = append(*out, path+"=iface(nil)")
			return
		}
		walkFP(v.Elem(), path, out, depth+1)
	case reflect.Ptr:
		if v.IsNil() {
			*out = append(*out, path+"=*"+v.Type().Elem().Name()+"(nil)")
			return
		}
		walkFP(v.Elem(), path, out, depth+1)
	case reflect.Struct:
		t := v.Type()
		*out = append(*out, path+"=struct "+t.Name())
		for i := 0; i < t.NumField(); i++ {
			f := t.Field(i)
			if f.PkgPath != "" { // unexported
				continue
			}
			walkFP(v.Field(i), path+"."+f.Name, out, depth+1)
		}
	case reflect.Slice:
		if v.IsNil() {
			// nil and empty slices print and behave alike through the API; length is what counts
			*out = append(*out, path+"=len 0")
			return
		}
		*out = append(*out, path+"=len "+strconv.Itoa(v.Len()))
		for i := 0; i < v.Len(); i++ {
			walkFP(v.Index(i), path+"["+strconv.Itoa(i)+"]", out, depth+1)
		}
	case reflect.Array:
		for i := 0; i < v.Len(); i++ {
			walkFP(v.Index(i), path+"["+strconv.Itoa(i)+"]", out, depth+1)
		}
	case reflect.Map:
		*out = append(*out, path+"=map len "+strconv.Itoa(v.Len()))
		keys := v.MapKeys()
		ks := make([]string, len(keys))
		idx := map[string]reflect.Value{}
		for i, k := range keys {
			ks[i] = fmt.Sprintf("%#v", k.Interface())
			idx[ks[i]] = k
		}
		sortStrings(ks)
		for _, k := range ks {
			walkFP(v.MapIndex(idx[k]), path+"{"+k+"}", out, depth+1)
		}
	case reflect.String:
		*out = append(*out, path+"="+strconv.Quote(v.String()))
	case reflect.Bool:
		*out = append(*out, path+"="+strconv.FormatBool(v.Bool()))
	case reflect.Int, reflect.Int8, reflect.Int16, reflect.Int32, reflect.Int64:
		*out = append(*out, path+"="+v.Type().Name()+":"+strconv.FormatInt(v.Int(), 10))
	case reflect.Uint, reflect.Uint8, reflect.Uint16, reflect.Uint32, reflect.Uint64:
		*out = append(*out, path+"="+v.Type().Name()+":"+strconv.FormatUint(v.Uint(), 10))
	case reflect.Float32, reflect.Float64:
		*out = append(*out, path+"=float:"+strconv.FormatFloat(v.Float(), 'g', -1, 64))
	case reflect.Func:
		*out = append(*out, path+"=func(nil="+strconv.FormatBool(v.IsNil())+")")
	default:
		*out = append(*out, path+"=<"+v.Kind().String()+">")
	}
}

func sortStrings(a []string) {
	for i := 1; i < len(a); i++ {
		for j := i; j > 0 && a[j] < a[j-1]; j-- {
			a[j], a[j-1] = a[j-1], a[j]
		}
	}
}

// Canon renders an operation result canonically (errors by message, times by UnixNano+zone, no
// addresses): the "result fingerprint" of DESIGN.md §3.7.
func Canon(v interface{}) string {
	switch x := v.(type) {
	case nil:
		return "<nil>"
	case error:
		return "error(" + x.Error() + ")"
	case string:
		return strconv.Quote(x)
	case []string:
		return fmt.Sprintf("%q", x)
	case time.Duration:
		return "dur:" + strconv.FormatInt(int64(x), 10)
	}
	return FP(v)
}
