package core

import (
	"encoding/hex"
	"encoding/json"
	"fmt"
	"strings"
	"unicode/utf8"
)

// RawStr is a string that survives JSON exactly even when it is not valid UTF-8 (plans must
// replay byte for byte): valid strings are stored as "s:<text>", others as "x:<hex>".
type RawStr string

func (r RawStr) MarshalJSON() ([]byte, error) {
	s := string(r)
	if utf8.ValidString(s) && !strings.ContainsRune(s, utf8.RuneError) {
		return json.Marshal("s:" + s)
	}
	return json.Marshal("x:" + hex.EncodeToString([]byte(s)))
}

func (r *RawStr) UnmarshalJSON(b []byte) error {
	var s string
	if err := json.Unmarshal(b, &s); err != nil {
		return err
	}
	switch {
	case strings.HasPrefix(s, "s:"):
		*r = RawStr(s[2:])
	case strings.HasPrefix(s, "x:"):
		d, err := hex.DecodeString(s[2:])
		if err != nil {
			return err
		}
		*r = RawStr(d)
	default:
		return fmt.Errorf("RawStr without prefix: %q", s)
	}
	return nil
}
