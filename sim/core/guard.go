package core

import (
	"fmt"
	"runtime"
	"strings"
)

const libPrefix = "github.com/influxdata/influxql."
const hookPrefix = "github.com/influxdata/influxql/verifhook."

// PanicInfo describes a recovered panic by where it happened in the library and what kind it was.
type PanicInfo struct {
	Class string `json:"class"` // index, slice, nil-deref, divide, type-assert, budget, explicit:<msg>
	Func  string `json:"func"`  // innermost influxql function (no line numbers: stable under edits)
	Msg   string `json:"msg"`
	Stack []string `json:"stack,omitempty"`
}

// Sig is the violation signature of a panic. A panic without any library frame on its stack is
// the harness's own doing and is reported as infrastructure trouble, never as a violation.
func (p *PanicInfo) Sig() string {
	if p.Func == "<outside-library>" {
		return "infra:harness-panic:" + p.Class
	}
	return "panic:" + p.Class + "@" + p.Func
}

// Guard runs f and converts a panic into a PanicInfo.
func Guard(f func()) (pi *PanicInfo) {
	defer func() {
		if r := recover(); r != nil {
			pi = describe(r)
		}
	}()
	f()
	return nil
}

func describe(r interface{}) *PanicInfo {
	msg := fmt.Sprint(r)
	pi := &PanicInfo{Msg: msg}
	isBudget := false
	if e, ok := r.(error); ok {
		msg = e.Error()
		if strings.HasPrefix(msg, "verif: step budget exceeded") {
			isBudget = true
		}
	}
	switch {
	case isBudget:
		pi.Class = "budget"
	case strings.Contains(msg, "index out of range"):
		pi.Class = "index"
	case strings.Contains(msg, "slice bounds out of range"):
		pi.Class = "slice"
	case strings.Contains(msg, "nil pointer dereference"):
		pi.Class = "nil-deref"
	case strings.Contains(msg, "divide by zero"):
		pi.Class = "divide"
	case strings.Contains(msg, "interface conversion"):
		pi.Class = "type-assert"
	case strings.Contains(msg, "nil map"):
		pi.Class = "nil-map"
	default:
		m := msg
		if len(m) > 24 {
			m = m[:24]
		}
		pi.Class = "explicit:" + m
	}
	pcs := make([]uintptr, 64)
	n := runtime.Callers(3, pcs)
	frames := runtime.CallersFrames(pcs[:n])
	for {
		fr, more := frames.Next()
		fn := fr.Function
		if strings.HasPrefix(fn, libPrefix) && !strings.HasPrefix(fn, hookPrefix) {
			short := strings.TrimPrefix(fn, libPrefix)
			if pi.Func == "" {
				pi.Func = short
			}
			if len(pi.Stack) < 8 {
				pi.Stack = append(pi.Stack, short)
			}
		}
		if !more {
			break
		}
	}
	if pi.Func == "" {
		pi.Func = "<outside-library>"
	}
	if isBudget {
		// a budget overrun is identified by the operation, not by where the counter happened to trip
		pi.Func = "*"
	}
	return pi
}
