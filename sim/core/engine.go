package core

import (
	"encoding/json"
)

// Violation is one breach of a property found in a run. Sig identifies the defect class: it is the
// key used for known-findings matching, for de-duplication and for "same failure" during
// minimisation, so it must not contain run-specific data.
type Violation struct {
	Sig    string `json:"sig"`
	Detail string `json:"detail"`
}

// RunResult is what executing one plan yields.
type RunResult struct {
	Violations []Violation
	Nontrivial bool               // by the engine's stated rule
	Faults     map[string]int     // fault kinds that actually fired in this run
	Probes     map[string]int     // "rare condition was hit" counters
	Steps      int64              // library function entries
	Extra      map[string]float64 // additive engine-specific measures (simulated seconds, switches ...)
	Skipped    string             // non-empty: the plan was not applicable (e.g. text did not parse); reason
	Trace      uint64             // hash of the run's event log (determinism self-test)
	States     []uint64           // hashes of distinct abstract states / interleavings reached
}

func (r *RunResult) Violate(sig, detail string) {
	for _, v := range r.Violations {
		if v.Sig == sig {
			return
		}
	}
	if len(detail) > 1500 {
		detail = detail[:1500] + "…"
	}
	r.Violations = append(r.Violations, Violation{Sig: sig, Detail: detail})
}

func (r *RunResult) Fault(kind string) {
	if r.Faults == nil {
		r.Faults = map[string]int{}
	}
	r.Faults[kind]++
}

func (r *RunResult) Probe(name string) {
	if r.Probes == nil {
		r.Probes = map[string]int{}
	}
	r.Probes[name]++
}

func (r *RunResult) ProbeN(name string, n int) {
	if n == 0 {
		return
	}
	if r.Probes == nil {
		r.Probes = map[string]int{}
	}
	r.Probes[name] += n
}

func (r *RunResult) AddExtra(name string, v float64) {
	if r.Extra == nil {
		r.Extra = map[string]float64{}
	}
	r.Extra[name] += v
}

func (r *RunResult) HasSig(sig string) bool {
	for _, v := range r.Violations {
		if v.Sig == sig {
			return true
		}
	}
	return false
}

// Meta is the static description of an engine's check of one property.
type Meta struct {
	Property    string
	Engine      string
	Level       string // exploration | fault_enumeration
	Rule        string // how cases are generated and what makes one distinct & non-trivial
	Assumptions []string
	Real        []string
	Stub        []string
	ProbeNames  []string // probes expected to be non-zero in a healthy batch
	FaultNames  []string
	NeedsRace   bool
}

// Engine is one property check.
type Engine interface {
	Meta() Meta
	// Runs is the fixed number of runs of a tier (fixed so that a batch is a function of the seed).
	Runs(tier string) uint64
	// NewPlan draws the complete plan of run i from r. The result must be JSON-marshalable and
	// self-contained: Exec must not need the seed.
	NewPlan(r *Rand, tier string, i uint64) interface{}
	// Decode is the inverse of json.Marshal on a plan.
	Decode(b []byte) (interface{}, error)
	// Exec executes a plan. It must be a pure function of (plan, tree).
	Exec(plan interface{}) *RunResult
	// Shrink proposes strictly smaller plans (deep copies).
	Shrink(plan interface{}) []interface{}
}

func PlanJSON(p interface{}) []byte {
	b, err := json.Marshal(p)
	if err != nil {
		panic("plan not marshalable: " + err.Error())
	}
	return b
}

// Clone deep-copies a plan through JSON using the engine's decoder.
func ClonePlan(e Engine, p interface{}) interface{} {
	q, err := e.Decode(PlanJSON(p))
	if err != nil {
		panic("plan does not round-trip: " + err.Error())
	}
	return q
}

// Minimise shrinks plan while a violation with signature sig persists. Returns the smallest plan
// found and the number of candidate executions.
func Minimise(e Engine, plan interface{}, sig string, maxExec int) (interface{}, int) {
	execs := 0
	for progress := true; progress && execs < maxExec; {
		progress = false
		for _, c := range e.Shrink(plan) {
			if execs >= maxExec {
				break
			}
			execs++
			if res := e.Exec(c); res.HasSig(sig) {
				plan = c
				progress = true
				break
			}
		}
	}
	return plan, execs
}
