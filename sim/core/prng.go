// Package core holds what every engine shares: the PRNG all choices come from, the structural
// fingerprint, panic capture, evidence and known-findings handling, worker sharding, minimisation.
package core

import "hash/fnv"

// Rand is SplitMix64. One Rand, seeded from (VERIF_SEED, property, run index), draws the whole
// plan of a run before anything executes.
type Rand struct{ s uint64 }

func NewRand(seed uint64) *Rand { return &Rand{s: seed} }

func (r *Rand) U64() uint64 {
	r.s += 0x9E3779B97F4A7C15
	z := r.s
	z = (z ^ (z >> 30)) * 0xBF58476D1CE4E5B9
	z = (z ^ (z >> 27)) * 0x94D049BB133111EB
	return z ^ (z >> 31)
}

// Intn returns a value in [0, n). n <= 0 yields 0.
func (r *Rand) Intn(n int) int {
	if n <= 1 {
		return 0
	}
	return int(r.U64() % uint64(n))
}

// Range returns a value in [lo, hi].
func (r *Rand) Range(lo, hi int) int {
	if hi <= lo {
		return lo
	}
	return lo + r.Intn(hi-lo+1)
}

// Chance is true with probability num/den.
func (r *Rand) Chance(num, den int) bool { return r.Intn(den) < num }

func (r *Rand) Float() float64 { return float64(r.U64()>>11) / float64(1<<53) }

func (r *Rand) Pick(xs []string) string {
	if len(xs) == 0 {
		return ""
	}
	return xs[r.Intn(len(xs))]
}

// Weighted picks an index with probability proportional to w[i].
func (r *Rand) Weighted(w []int) int {
	t := 0
	for _, x := range w {
		t += x
	}
	if t <= 0 {
		return 0
	}
	k := r.Intn(t)
	for i, x := range w {
		if k < x {
			return i
		}
		k -= x
	}
	return len(w) - 1
}

// Perm returns a permutation of [0, n).
func (r *Rand) Perm(n int) []int {
	p := make([]int, n)
	for i := range p {
		p[i] = i
	}
	for i := n - 1; i > 0; i-- {
		j := r.Intn(i + 1)
		p[i], p[j] = p[j], p[i]
	}
	return p
}

// Fork derives an independent generator (for sub-plans) without disturbing determinism.
func (r *Rand) Fork() *Rand { return NewRand(r.U64()) }

// Mix derives the seed of run i of a property's batch.
func Mix(seed uint64, property string, i uint64) uint64 {
	h := fnv.New64a()
	h.Write([]byte(property))
	x := seed*0x9E3779B97F4A7C15 ^ h.Sum64()
	x ^= (i + 1) * 0xD1B54A32D192ED03
	r := NewRand(x)
	r.U64()
	return r.U64()
}

// Hash64 hashes a string (FNV-1a).
func Hash64(s string) uint64 {
	h := fnv.New64a()
	h.Write([]byte(s))
	return h.Sum64()
}

// Pick3 returns one of three ints.
func (r *Rand) Pick3(a, b, c int) int {
	switch r.Intn(3) {
	case 0:
		return a
	case 1:
		return b
	}
	return c
}
