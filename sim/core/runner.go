package core

import (
	"encoding/binary"
	"encoding/json"
	"fmt"
	"os"
	"os/exec"
	"path/filepath"
	"sort"
	"strconv"
	"strings"
	"time"
)

// ---------------------------------------------------------------------------------------------
// known findings

type Finding struct {
	Property string `json:"property"`
	Key      string `json:"key"` // a violation signature
	What     string `json:"what"`
	Example  string `json:"example,omitempty"`
}

type FixedEntry struct {
	Property string `json:"property"`
	Commit   string `json:"commit"`
	What     string `json:"what"`
	Key      string `json:"key,omitempty"`
}

type KnownFile struct {
	Findings []Finding    `json:"findings"`
	Fixed    []FixedEntry `json:"fixed"`
}

func LoadKnown(path string) (*KnownFile, error) {
	k := &KnownFile{}
	if path == "" {
		return k, nil
	}
	b, err := os.ReadFile(path)
	if err != nil {
		if os.IsNotExist(err) {
			return k, nil
		}
		return nil, err
	}
	if err := json.Unmarshal(b, k); err != nil {
		return nil, fmt.Errorf("%s: %v", path, err)
	}
	return k, nil
}

func (k *KnownFile) Lookup(property, sig string) *Finding {
	for i := range k.Findings {
		if k.Findings[i].Property == property && k.Findings[i].Key == sig {
			return &k.Findings[i]
		}
	}
	return nil
}

// ---------------------------------------------------------------------------------------------
// worker

type Found struct {
	Sig      string          `json:"sig"`
	Detail   string          `json:"detail"`
	Run      uint64          `json:"run"`
	Plan     json.RawMessage `json:"plan"`
	Unmin    json.RawMessage `json:"unmin"`
	MinExecs int             `json:"min_execs"`
	// Prelude: plans that must run first, in the same process, for the violation to occur
	// (process-wide state left behind by earlier operations). Empty in the normal case.
	Prelude []json.RawMessage `json:"prelude,omitempty"`
	Unconfirmed bool          `json:"unconfirmed,omitempty"`
}

type WorkerOut struct {
	Shard      int                `json:"shard"`
	Runs       uint64             `json:"runs"`
	Skipped    map[string]uint64  `json:"skipped"`
	Faults     map[string]int     `json:"faults"`
	Probes     map[string]int     `json:"probes"`
	Extra      map[string]float64 `json:"extra"`
	Steps      int64              `json:"steps"`
	Known      map[string]uint64  `json:"known"`
	Found      []Found            `json:"found"`
	Samples    []json.RawMessage  `json:"samples"`
	LogHash    uint64             `json:"log_hash"`
	Wall       float64            `json:"wall"`
	Truncated  bool               `json:"truncated"`
	Nontrivial uint64             `json:"nontrivial_runs"`
	SitesHit   []int32            `json:"sites_hit"`
}

// Worker executes runs i ≡ shard (mod of) of a batch and writes its summary to outPath; distinct
// non-trivial plan hashes go to outPath+".nt", state hashes to outPath+".st".
func Worker(e Engine, tier string, seed uint64, shard, of int, runs uint64, known *KnownFile, outPath string, deadline time.Duration) error {
	m := e.Meta()
	start := time.Now()
	out := &WorkerOut{Shard: shard, Skipped: map[string]uint64{}, Faults: map[string]int{}, Probes: map[string]int{}, Extra: map[string]float64{}, Known: map[string]uint64{}}
	nt := map[uint64]struct{}{}
	st := map[uint64]struct{}{}
	seenSig := map[string]bool{}
	sitesHit := map[int32]bool{}
	prog, _ := os.Create(outPath + ".progress")
	var dump *os.File
	if d := os.Getenv("VERIF_TRACE_DUMP"); d != "" {
		dump, _ = os.Create(fmt.Sprintf("%s.%d", d, shard))
		defer dump.Close()
	}
	var pb [8]byte
	for i := uint64(shard); i < runs; i += uint64(of) {
		if deadline > 0 && (i/uint64(of))%64 == 0 && time.Since(start) > deadline {
			out.Truncated = true
			break
		}
		if prog != nil {
			binary.LittleEndian.PutUint64(pb[:], i)
			prog.WriteAt(pb[:], 0)
		}
		r := NewRand(Mix(seed, m.Property, i))
		plan := e.NewPlan(r, tier, i)
		res := e.Exec(plan)
		out.Runs++
		for _, sidx := range SiteSnapshot() {
			sitesHit[sidx] = true
		}
		out.LogHash += Mix(res.Trace, "log", i)
		if dump != nil {
			fmt.Fprintf(dump, "%d %016x\n", i, res.Trace)
		}
		if res.Skipped != "" {
			out.Skipped[res.Skipped]++
		}
		for k, v := range res.Faults {
			out.Faults[k] += v
		}
		for k, v := range res.Probes {
			out.Probes[k] += v
		}
		for k, v := range res.Extra {
			out.Extra[k] += v
		}
		out.Steps += res.Steps
		for _, s := range res.States {
			st[s] = struct{}{}
		}
		if res.Nontrivial {
			out.Nontrivial++
			pj := PlanJSON(plan)
			h := Hash64(string(pj))
			if _, dup := nt[h]; !dup {
				nt[h] = struct{}{}
				if len(out.Samples) < 3 && len(pj) < 6000 {
					out.Samples = append(out.Samples, pj)
				}
			}
		}
		for _, v := range res.Violations {
			if known.Lookup(m.Property, v.Sig) != nil {
				out.Known[v.Sig]++
				continue
			}
			if seenSig[v.Sig] {
				continue
			}
			seenSig[v.Sig] = true
			if strings.HasPrefix(v.Sig, "infra:") {
				out.Found = append(out.Found, Found{Sig: v.Sig, Detail: v.Detail, Run: i, Plan: PlanJSON(plan), Unmin: PlanJSON(plan)})
				continue
			}
			unmin := PlanJSON(plan)
			fresh := func(prelude []json.RawMessage, pl json.RawMessage) bool {
				// the race detector keeps a bounded, randomly evicted access history per memory word, so
				// a genuine race is not reported in every execution: give a race signature three attempts
				tries := 1
				if strings.HasPrefix(v.Sig, "race{") {
					tries = 3
				}
				for k := 0; k < tries; k++ {
					if childReproduces(m, outPath, seed, i, v.Sig, prelude, pl) {
						return true
					}
				}
				return false
			}
			if fresh(nil, unmin) {
				minPlan, execs := Minimise(e, ClonePlan(e, plan), v.Sig, 3000)
				detail := v.Detail
				mj := PlanJSON(minPlan)
				if r2 := e.Exec(minPlan); r2.HasSig(v.Sig) && fresh(nil, mj) {
					for _, v2 := range r2.Violations {
						if v2.Sig == v.Sig {
							detail = v2.Detail
						}
					}
				} else {
					mj = unmin // the minimised plan does not stand alone: keep the original
				}
				out.Found = append(out.Found, Found{Sig: v.Sig, Detail: detail, Run: i, Plan: mj, Unmin: unmin, MinExecs: execs})
				continue
			}
			// The plan alone does not fail in a fresh process: the failure depends on process-wide
			// state left behind by earlier runs of this worker. Make the history part of the replay
			// and minimise it (ddmin over the prelude, each trial in a fresh process).
			var prelude []json.RawMessage
			confirmed := false
			for _, depth := range []uint64{1500, 25000} {
				// the last `depth` plans of this worker; the shorter history first (cheaper to minimise)
				first := uint64(shard)
				if n := (i - uint64(shard)) / uint64(of); n > depth {
					first = i - depth*uint64(of)
				}
				prelude = prelude[:0]
				for j := first; j < i; j += uint64(of) {
					prelude = append(prelude, PlanJSON(e.NewPlan(NewRand(Mix(seed, m.Property, j)), tier, j)))
				}
				if fresh(prelude, unmin) {
					confirmed = true
					break
				}
				if first == uint64(shard) {
					break // that was the whole history
				}
			}
			if !confirmed {
				out.Found = append(out.Found, Found{Sig: v.Sig, Detail: v.Detail, Run: i, Plan: unmin, Unmin: unmin, Unconfirmed: true})
				continue
			}
			tstart := time.Now()
			trials := 0
			for chunk := (len(prelude) + 1) / 2; chunk >= 1 && time.Since(tstart) < 75*time.Second; {
				removed := false
				for at := 0; at < len(prelude) && time.Since(tstart) < 75*time.Second; {
					end := at + chunk
					if end > len(prelude) {
						end = len(prelude)
					}
					cand := append(append([]json.RawMessage{}, prelude[:at]...), prelude[end:]...)
					trials++
					if fresh(cand, unmin) {
						prelude = cand
						removed = true
					} else {
						at = end
					}
				}
				if chunk == 1 && !removed {
					break
				}
				if chunk > 1 {
					chunk = (chunk + 1) / 2
				}
			}
			out.Found = append(out.Found, Found{Sig: v.Sig, Detail: v.Detail + fmt.Sprintf("\n(needs %d earlier operation(s) in the same process; see prelude)", len(prelude)), Run: i, Plan: unmin, Unmin: unmin, MinExecs: trials, Prelude: prelude})
		}
		if len(out.Found) >= 6 {
			out.Truncated = true
			break
		}
	}
	if prog != nil {
		prog.Close()
		os.Remove(outPath + ".progress")
	}
	out.Wall = time.Since(start).Seconds()
	for sidx := range sitesHit {
		out.SitesHit = append(out.SitesHit, sidx)
	}
	sort.Slice(out.SitesHit, func(a, b int) bool { return out.SitesHit[a] < out.SitesHit[b] })
	if err := writeHashes(outPath+".nt", nt); err != nil {
		return err
	}
	if err := writeHashes(outPath+".st", st); err != nil {
		return err
	}
	b, _ := json.Marshal(out)
	return os.WriteFile(outPath, b, 0o644)
}

// childReproduces executes prelude + plan in a fresh process and reports whether sig recurs.
func childReproduces(m Meta, outPath string, seed, run uint64, sig string, prelude []json.RawMessage, plan json.RawMessage) bool {
	self, err := os.Executable()
	if err != nil {
		return false
	}
	rp := Replay{Property: m.Property, Engine: m.Engine, Seed: seed, Run: run, Signature: sig, Plan: plan, Prelude: prelude}
	b, _ := json.Marshal(rp)
	tmp := outPath + ".trial.json"
	if err := os.WriteFile(tmp, b, 0o644); err != nil {
		return false
	}
	defer os.Remove(tmp)
	cmd := exec.Command(self, "replay", tmp)
	cmd.Env = append(os.Environ(), "GOMAXPROCS=1")
	outb, _ := cmd.CombinedOutput()
	return strings.Contains(string(outb), "REPRODUCED "+sig) && !strings.Contains(string(outb), "NOT-REPRODUCED")
}

func writeHashes(path string, m map[uint64]struct{}) error {
	buf := make([]byte, 0, 8*len(m))
	var b [8]byte
	for h := range m {
		binary.LittleEndian.PutUint64(b[:], h)
		buf = append(buf, b[:]...)
	}
	return os.WriteFile(path, buf, 0o644)
}

func readHashes(path string, into map[uint64]struct{}) {
	b, err := os.ReadFile(path)
	if err != nil {
		return
	}
	for i := 0; i+8 <= len(b); i += 8 {
		into[binary.LittleEndian.Uint64(b[i:])] = struct{}{}
	}
}

// ---------------------------------------------------------------------------------------------
// replay files

type Replay struct {
	Property  string          `json:"property"`
	Engine    string          `json:"engine"`
	TreeHash  string          `json:"tree_hash"`
	Seed      uint64          `json:"seed"`
	Run       uint64          `json:"run_index"`
	Signature string          `json:"signature"`
	Detail    string          `json:"detail"`
	Plan      json.RawMessage `json:"plan"`
	// Prelude plans are executed first, in order, in the same process (their results are ignored)
	Prelude   []json.RawMessage `json:"prelude,omitempty"`
	MinExecs  int             `json:"minimisation_execs"`
	UnminFile string          `json:"unminimised_plan_file,omitempty"`
}

// ---------------------------------------------------------------------------------------------
// parent

type CheckOpts struct {
	Tier       string
	Seed       uint64
	Workers    int
	Scratch    string // scratch dir for worker outputs
	ReplayDir  string
	Evidence   string
	KnownPath  string
	TreeHash   string
	Self       string // path of this binary
	Instrument json.RawMessage
	Deadline   time.Duration
	RunsOverride uint64
}

// Check runs a whole batch: shards it over worker processes, merges, writes evidence and replay
// files, prints KNOWN-FINDING / VIOLATION lines. Returns the process exit code.
func Check(e Engine, o CheckOpts) int {
	m := e.Meta()
	start := time.Now()
	fmt.Printf("VERIF_SEED=%d property=%s engine=%s tier=%s tree=%s\n", o.Seed, m.Property, m.Engine, o.Tier, o.TreeHash)
	known, err := LoadKnown(o.KnownPath)
	if err != nil {
		fmt.Fprintf(os.Stderr, "known findings: %v\n", err)
		return 2
	}
	runs := e.Runs(o.Tier)
	if o.RunsOverride > 0 {
		runs = o.RunsOverride
	}
	w := o.Workers
	if uint64(w) > runs {
		w = int(runs)
	}
	if w < 1 {
		w = 1
	}
	type proc struct {
		cmd *exec.Cmd
		out string
		log *os.File
	}
	procs := make([]proc, w)
	for k := 0; k < w; k++ {
		outPath := filepath.Join(o.Scratch, fmt.Sprintf("w%d.json", k))
		logf, _ := os.Create(outPath + ".log")
		cmd := exec.Command(o.Self, "worker", "--prop", m.Property, "--tier", o.Tier, "--seed", strconv.FormatUint(o.Seed, 10),
			"--shard", strconv.Itoa(k), "--of", strconv.Itoa(w), "--runs", strconv.FormatUint(runs, 10), "--known", o.KnownPath, "--out", outPath,
			"--deadline", o.Deadline.String())
		cmd.Stdout = logf
		cmd.Stderr = logf
		gmp := "GOMAXPROCS=2"
		if m.NeedsRace {
			gmp = "GOMAXPROCS=1" // serial execution anyway; one P keeps sync.Pool hand-over between tasks likely
		}
		cmd.Env = append(os.Environ(), gmp, "GORACE=halt_on_error=0 suppress_equal_stacks=0 suppress_equal_addresses=0 history_size=3 exitcode=0 log_path="+outPath+".race")
		if err := cmd.Start(); err != nil {
			fmt.Fprintf(os.Stderr, "cannot start worker: %v\n", err)
			return 2
		}
		procs[k] = proc{cmd, outPath, logf}
	}
	infra := false
	// watchdog: a worker whose progress marker does not move for 10 minutes is stuck in something the
	// step budget cannot see (a blocking call, a loop in uninstrumented code): kill it, report INFRA
	stopWatch := make(chan struct{})
	go func() {
		last := make([]uint64, len(procs))
		since := make([]time.Time, len(procs))
		for i := range since {
			since[i] = time.Now()
		}
		for {
			select {
			case <-stopWatch:
				return
			case <-time.After(5 * time.Second):
			}
			for k := range procs {
				pb, err := os.ReadFile(procs[k].out + ".progress")
				if err != nil || len(pb) < 8 {
					since[k] = time.Now() // finished (file removed) or not started
					continue
				}
				cur := binary.LittleEndian.Uint64(pb)
				if cur != last[k] {
					last[k], since[k] = cur, time.Now()
				} else if time.Since(since[k]) > stallLimit() {
					fmt.Fprintf(os.Stderr, "INFRA: worker %d made no progress for %s at run %d; killing it (plan: vsim plan %s %s %d %d)\n", k, stallLimit(), cur, m.Property, o.Tier, o.Seed, cur)
					_ = procs[k].cmd.Process.Kill()
					since[k] = time.Now()
				}
			}
		}
	}()
	defer close(stopWatch)
	agg := &WorkerOut{Skipped: map[string]uint64{}, Faults: map[string]int{}, Probes: map[string]int{}, Extra: map[string]float64{}, Known: map[string]uint64{}}
	nt := map[uint64]struct{}{}
	st := map[uint64]struct{}{}
	allSites := map[int32]bool{}
	for k := range procs {
		err := procs[k].cmd.Wait()
		procs[k].log.Close()
		b, rerr := os.ReadFile(procs[k].out)
		if err != nil || rerr != nil {
			infra = true
			lg, _ := os.ReadFile(procs[k].out + ".log")
			tail := string(lg)
			if len(tail) > 3000 {
				tail = tail[len(tail)-3000:]
			}
			at := "?"
			if pb, e2 := os.ReadFile(procs[k].out + ".progress"); e2 == nil && len(pb) >= 8 {
				at = strconv.FormatUint(binary.LittleEndian.Uint64(pb), 10)
			}
			fmt.Fprintf(os.Stderr, "INFRA: worker %d died (%v) at run %s; log tail:\n%s\n", k, err, at, tail)
			continue
		}
		var wo WorkerOut
		if err := json.Unmarshal(b, &wo); err != nil {
			infra = true
			fmt.Fprintf(os.Stderr, "INFRA: worker %d output unreadable: %v\n", k, err)
			continue
		}
		agg.Runs += wo.Runs
		agg.Nontrivial += wo.Nontrivial
		agg.Steps += wo.Steps
		agg.LogHash += wo.LogHash
		agg.Truncated = agg.Truncated || wo.Truncated
		for k2, v := range wo.Skipped {
			agg.Skipped[k2] += v
		}
		for k2, v := range wo.Faults {
			agg.Faults[k2] += v
		}
		for k2, v := range wo.Probes {
			agg.Probes[k2] += v
		}
		for k2, v := range wo.Extra {
			agg.Extra[k2] += v
		}
		for k2, v := range wo.Known {
			agg.Known[k2] += v
		}
		agg.Found = append(agg.Found, wo.Found...)
		for _, sidx := range wo.SitesHit {
			allSites[sidx] = true
		}
		for _, s := range wo.Samples {
			if len(agg.Samples) < 4 {
				agg.Samples = append(agg.Samples, s)
			}
		}
		readHashes(procs[k].out+".nt", nt)
		readHashes(procs[k].out+".st", st)
	}

	// Known findings: one line each.
	var knownSeen []string
	for sig := range agg.Known {
		knownSeen = append(knownSeen, sig)
	}
	sort.Strings(knownSeen)
	for _, sig := range knownSeen {
		f := known.Lookup(m.Property, sig)
		fmt.Printf("KNOWN-FINDING: property=%s %s [%s; seen %d times]\n", m.Property, f.What, sig, agg.Known[sig])
	}

	// New violations: de-duplicate by signature (lowest run index wins), write replay files,
	// re-execute each in a fresh process.
	sort.Slice(agg.Found, func(i, j int) bool { return agg.Found[i].Run < agg.Found[j].Run })
	seen := map[string]bool{}
	violations := 0
	for _, f := range agg.Found {
		if seen[f.Sig] {
			continue
		}
		seen[f.Sig] = true
		if strings.HasPrefix(f.Sig, "infra:") {
			infra = true
			fmt.Fprintf(os.Stderr, "INFRA: %s (run %d): %s\n", f.Sig, f.Run, f.Detail)
			continue
		}
		if f.Unconfirmed {
			infra = true
			fmt.Fprintf(os.Stderr, "INFRA: violation %q (run %d) was seen in a worker but reproduces neither alone nor after the worker's earlier runs in a fresh process: %s\n", f.Sig, f.Run, f.Detail)
			continue
		}
		violations++
		_ = os.MkdirAll(o.ReplayDir, 0o755)
		name := fmt.Sprintf("%s-%016x", m.Property, Hash64(f.Sig))
		path := filepath.Join(o.ReplayDir, name+".json")
		unminPath := filepath.Join(o.ReplayDir, name+".unmin.json")
		_ = os.WriteFile(unminPath, f.Unmin, 0o644)
		rp := Replay{Property: m.Property, Engine: m.Engine, TreeHash: o.TreeHash, Seed: o.Seed, Run: f.Run, Signature: f.Sig, Detail: f.Detail, Plan: f.Plan, Prelude: f.Prelude, MinExecs: f.MinExecs, UnminFile: unminPath}
		b, _ := json.MarshalIndent(rp, "", " ")
		_ = os.WriteFile(path, b, 0o644)
		// fresh-process confirmation
		var outb []byte
		confirmed := false
		tries := 1
		if strings.HasPrefix(f.Sig, "race{") {
			tries = 3 // see Worker: race reports are probabilistic
		}
		for k := 0; k < tries && !confirmed; k++ {
			cmd := exec.Command(o.Self, "replay", path)
			cmd.Env = append(os.Environ(), "GOMAXPROCS=1", "GORACE=halt_on_error=0 suppress_equal_stacks=0 suppress_equal_addresses=0 history_size=3 exitcode=0 log_path="+filepath.Join(o.Scratch, "replay.race"))
			outb, _ = cmd.CombinedOutput()
			confirmed = strings.Contains(string(outb), "REPRODUCED "+f.Sig) && !strings.Contains(string(outb), "NOT-REPRODUCED")
		}
		if !confirmed {
			// A violation that does not replay in a fresh process is a harness defect, not a finding.
			infra = true
			violations--
			fmt.Fprintf(os.Stderr, "INFRA: violation %q (run %d) did not reproduce in a fresh process:\n%s\n", f.Sig, f.Run, string(outb))
			continue
		}
		fmt.Printf("VIOLATION property=%s replay=%s\n", m.Property, path)
		fmt.Printf("  signature: %s\n  detail: %s\n  run=%d seed=%d minimisation_execs=%d\n", f.Sig, strings.ReplaceAll(f.Detail, "\n", "\n    "), f.Run, o.Seed, f.MinExecs)
	}

	wall := time.Since(start).Seconds()
	// Evidence.
	probesZero := []string{}
	for _, p := range m.ProbeNames {
		if agg.Probes[p] == 0 {
			probesZero = append(probesZero, p)
		}
	}
	faultsZero := []string{}
	for _, p := range m.FaultNames {
		if agg.Faults[p] == 0 {
			faultsZero = append(faultsZero, p)
		}
	}
	samples := []interface{}{}
	for _, s := range agg.Samples {
		var v interface{}
		if json.Unmarshal(s, &v) == nil {
			samples = append(samples, v)
		}
	}
	if len(samples) == 0 {
		samples = append(samples, "no non-trivial case in this run")
	}
	ev := map[string]interface{}{
		"property_id": m.Property,
		"tier":        o.Tier,
		"seed":        o.Seed,
		"level":       m.Level,
		"coverage": map[string]interface{}{
			"evaluations":            agg.Runs,
			"distinct_nontrivial":    len(nt),
			"rule":                   m.Rule,
			"samples":                samples,
			"exhaustive":             false,
			"nontrivial_runs":        agg.Nontrivial,
			"skipped":                agg.Skipped,
			"faults_fired":           agg.Faults,
			"faults_zero":            faultsZero,
			"probes":                 agg.Probes,
			"probes_zero":            probesZero,
			"distinct_states":        len(st),
			"steps_total":            agg.Steps,
			"extra":                  agg.Extra,
			"runs_per_hour":          int64(float64(agg.Runs) / wall * 3600),
			"seeds":                  []uint64{o.Seed},
			"event_log_hash":         fmt.Sprintf("%016x", agg.LogHash),
			"truncated":              agg.Truncated,
			"workers":                w,
			"components":             map[string]interface{}{"real": m.Real, "stub": m.Stub},
			"tree_hash":              o.TreeHash,
			"instrumentation":        o.Instrument,
			"known_findings_seen":    agg.Known,
			"engine":                 m.Engine,
			"library_sites_hit":      len(allSites),
			"library_sites_total":    len(SiteNamesFn()),
			"library_sites_never_hit": neverHit(allSites),
		},
		"assumptions": m.Assumptions,
		"wall_s":      wall,
		"violations":  violations,
	}
	if o.Instrument == nil {
		delete(ev["coverage"].(map[string]interface{}), "instrumentation")
	}
	b, _ := json.MarshalIndent(ev, "", " ")
	if o.Evidence != "" {
		_ = os.MkdirAll(filepath.Dir(o.Evidence), 0o755)
		if err := os.WriteFile(o.Evidence, b, 0o644); err != nil {
			fmt.Fprintf(os.Stderr, "INFRA: cannot write evidence: %v\n", err)
			infra = true
		}
	}
	fmt.Printf("runs=%d distinct_nontrivial=%d distinct_states=%d steps=%d known=%d violations=%d wall=%.1fs log=%016x\n",
		agg.Runs, len(nt), len(st), agg.Steps, len(agg.Known), violations, wall, agg.LogHash)
	if len(probesZero) > 0 {
		fmt.Printf("note: probes at zero: %v\n", probesZero)
	}
	switch {
	case violations > 0:
		return 1
	case infra:
		return 2
	}
	return 0
}

// ReplayFile executes a stored plan and compares signatures. Exit 1 + "REPRODUCED <sig>" when the
// stored violation recurs, 2 + "NOT-REPRODUCED" otherwise.
func ReplayFile(e Engine, path string) int {
	b, err := os.ReadFile(path)
	if err != nil {
		fmt.Fprintf(os.Stderr, "%v\n", err)
		return 2
	}
	var rp Replay
	if err := json.Unmarshal(b, &rp); err != nil {
		fmt.Fprintf(os.Stderr, "%s: %v\n", path, err)
		return 2
	}
	for k, pj := range rp.Prelude {
		pp, err := e.Decode(pj)
		if err != nil {
			fmt.Fprintf(os.Stderr, "%s: prelude %d: %v\n", path, k, err)
			return 2
		}
		e.Exec(pp)
	}
	plan, err := e.Decode(rp.Plan)
	if err != nil {
		fmt.Fprintf(os.Stderr, "%s: plan: %v\n", path, err)
		return 2
	}
	res := e.Exec(plan)
	for _, v := range res.Violations {
		if v.Sig == rp.Signature {
			fmt.Printf("REPRODUCED %s\n  %s\n", v.Sig, strings.ReplaceAll(v.Detail, "\n", "\n  "))
			return 1
		}
	}
	fmt.Printf("NOT-REPRODUCED %s (got %d other violations)\n", rp.Signature, len(res.Violations))
	for _, v := range res.Violations {
		fmt.Printf("  other: %s: %s\n", v.Sig, v.Detail)
	}
	return 2
}

// SiteSnapshot and SiteNamesFn are set by main (they live in the hook package, which core does not import).
var SiteSnapshot = func() []int32 { return nil }
var SiteNamesFn = func() []string { return nil }

func neverHit(hit map[int32]bool) []string {
	var out []string
	for i, n := range SiteNamesFn() {
		marker := false
		for _, suf := range []string{".node", ".stmt", ".expr", ".literal", ".source"} {
			if strings.HasSuffix(n, suf) {
				marker = true // empty interface-marker methods, never called
			}
		}
		if !hit[int32(i)] && !marker && !strings.Contains(n, "<pkg-init>") && !strings.HasSuffix(n, ":init") {
			out = append(out, n)
		}
	}
	if len(out) > 400 {
		out = out[:400]
	}
	return out
}

func stallLimit() time.Duration {
	if v := os.Getenv("VERIF_STALL_LIMIT"); v != "" {
		if d, err := time.ParseDuration(v); err == nil {
			return d
		}
	}
	return 10 * time.Minute
}

// ReplayProperty reads the property id out of a replay file.
func ReplayProperty(path string) (string, error) {
	b, err := os.ReadFile(path)
	if err != nil {
		return "", err
	}
	var rp Replay
	if err := json.Unmarshal(b, &rp); err != nil {
		return "", fmt.Errorf("%s: %v", path, err)
	}
	return rp.Property, nil
}
