package gen

import (
	"sort"
	"strings"
)

// ShrinkText proposes smaller variants of a statement text (used by plan minimisation): drop a
// clause, drop a comma-separated item, unwrap or drop a parenthesised group, drop 1–3 words.
// Candidates that no longer parse are simply rejected by the engine (the violation disappears).
func ShrinkText(s string) []string {
	seen := map[string]bool{s: true}
	var out []string
	add := func(c string) {
		c = strings.TrimSpace(c)
		if c != "" && !seen[c] && len(c) < len(s) {
			seen[c] = true
			out = append(out, c)
		}
	}
	// clauses
	kws := []string{" INTO ", " WHERE ", " GROUP BY ", " ORDER BY ", " LIMIT ", " OFFSET ", " SLIMIT ", " SOFFSET ", " TZ(", " fill("}
	up := strings.ToUpper(s)
	var cuts []int
	for _, k := range kws {
		for from := 0; ; {
			i := strings.Index(up[from:], strings.ToUpper(k))
			if i < 0 {
				break
			}
			cuts = append(cuts, from+i)
			from += i + 1
		}
	}
	sort.Ints(cuts)
	for i, c := range cuts {
		add(s[:c])
		if i+1 < len(cuts) {
			add(s[:c] + s[cuts[i+1]:])
		}
	}
	// parenthesised groups
	for i := 0; i < len(s); i++ {
		if s[i] != '(' {
			continue
		}
		depth := 0
		for j := i; j < len(s); j++ {
			if s[j] == '(' {
				depth++
			} else if s[j] == ')' {
				depth--
				if depth == 0 {
					add(s[:i] + s[i+1:j] + s[j+1:]) // unwrap
					add(s[:i] + s[j+1:])           // drop
					add(s[:i+1] + s[j:])           // empty
					break
				}
			}
		}
	}
	// comma-separated items
	for i := 0; i < len(s); i++ {
		if s[i] == ',' {
			// drop the item after this comma (up to next comma/space-keyword) and the one before
			j := i + 1
			for j < len(s) && s[j] == ' ' {
				j++
			}
			k := j
			depth := 0
			for k < len(s) {
				if s[k] == '(' {
					depth++
				} else if s[k] == ')' {
					if depth == 0 {
						break
					}
					depth--
				} else if (s[k] == ',' || s[k] == ' ') && depth == 0 {
					break
				}
				k++
			}
			add(s[:i] + s[k:])
		}
	}
	// words
	words := strings.Fields(s)
	if len(words) <= 60 {
		for n := 1; n <= 3; n++ {
			for i := 0; i+n <= len(words); i++ {
				c := append(append([]string{}, words[:i]...), words[i+n:]...)
				add(strings.Join(c, " "))
			}
		}
	}
	if len(out) > 400 {
		out = out[:400]
	}
	return out
}

// ShrinkBytes proposes smaller variants of an arbitrary byte string (ddmin-style chunks).
func ShrinkBytes(b []byte) [][]byte {
	var out [][]byte
	n := len(b)
	if n == 0 {
		return nil
	}
	for chunk := n / 2; chunk >= 1; chunk /= 2 {
		for i := 0; i+chunk <= n; i += chunk {
			c := append(append([]byte{}, b[:i]...), b[i+chunk:]...)
			out = append(out, c)
		}
		if len(out) > 300 {
			break
		}
	}
	return out
}
