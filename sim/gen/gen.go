// Package gen is the seeded workload generator (DESIGN.md §3.8). It produces statement texts;
// it is NOT used to judge whether the parser builds the right AST (C01 is not applicable).
package gen

import (
	"fmt"
	"strconv"
	"strings"

	"verifsim/core"
)

// Schema is a generated schema: what the simulated meta store knows.
type Schema struct {
	Measurements []MeasurementSchema `json:"measurements"`
}

type MeasurementSchema struct {
	Name   string            `json:"name"`
	Fields map[string]string `json:"fields"` // name -> float|integer|unsigned|string|boolean
	Tags   []string          `json:"tags"`
}

var FieldTypes = []string{"float", "integer", "unsigned", "string", "boolean"}

var fieldPool = []string{"f0", "f1", "f2", "f3", "f4", "f5", "value", "usage idle", "x"}
var tagPool = []string{"t0", "t1", "t2", "host", "region", "x", "f0"}
var measPool = []string{"m0", "m1", "m2", "cpu", "my m"}

// GenSchema draws a schema: overlapping names across measurements, conflicting types, tags
// shadowing fields, empty measurements, empty schema.
func GenSchema(r *core.Rand) Schema {
	var s Schema
	n := r.Weighted([]int{1, 6, 5, 3, 1}) // 0..4 measurements
	names := r.Perm(len(measPool))
	wide := r.Chance(1, 10) // a schema wide enough to cross size thresholds (sort algorithms, map growth)
	for i := 0; i < n && i < len(names); i++ {
		m := MeasurementSchema{Name: measPool[names[i]], Fields: map[string]string{}}
		nf := r.Weighted([]int{1, 3, 4, 4, 3, 2, 1})
		for _, k := range r.Perm(len(fieldPool))[:nf] {
			m.Fields[fieldPool[k]] = FieldTypes[r.Intn(len(FieldTypes))]
		}
		nt := r.Weighted([]int{2, 4, 4, 2, 1})
		for _, k := range r.Perm(len(tagPool))[:nt] {
			m.Tags = append(m.Tags, tagPool[k])
		}
		if wide {
			for k := r.Pick3(r.Range(8, 24), r.Range(8, 24), r.Range(60, 110)); k > 0; k-- {
				m.Fields["w"+strconv.Itoa(r.Intn(140))] = FieldTypes[r.Intn(len(FieldTypes))]
			}
			for k := r.Range(4, 12); k > 0; k-- {
				t := "w" + strconv.Itoa(r.Intn(140)) // tags shadowing the wide fields
				dup := false
				for _, x := range m.Tags {
					if x == t {
						dup = true
					}
				}
				if !dup {
					m.Tags = append(m.Tags, t)
				}
			}
		}
		s.Measurements = append(s.Measurements, m)
	}
	return s
}

// Opts steers the shape of generated SELECT statements.
type Opts struct {
	MaxDepth     int  // subquery depth
	Wild         int  // weight (0-10) of wildcard/regex fields
	Odd          int  // weight (0-10) of accepted-but-odd shapes (zero-arg calls, time(0s,1s) ...)
	Into         bool // allow INTO
	TimeCond     bool // allow time predicates in WHERE
	AllClauses   bool // bias towards populating every clause
	NoRegexSrc   bool // do not use regex measurement sources
	SafeNames    bool // only names that need no quoting
}

func ident(r *core.Rand, pool []string, safe bool) string {
	for {
		s := pool[r.Intn(len(pool))]
		if safe && strings.ContainsAny(s, " ") {
			continue
		}
		return quoteIdentMaybe(r, s)
	}
}

func quoteIdentMaybe(r *core.Rand, s string) string {
	need := strings.ContainsAny(s, " .-") || isKeywordish(s)
	if need || r.Chance(1, 8) {
		return `"` + strings.ReplaceAll(s, `"`, `\"`) + `"`
	}
	return s
}

func isKeywordish(s string) bool {
	switch strings.ToLower(s) {
	case "select", "from", "where", "group", "by", "time", "key", "field", "tag", "all", "on", "to", "in", "as", "name", "user", "limit", "order", "default":
		return true
	}
	return false
}

var aggNames = []string{"count", "first", "last", "distinct", "elapsed", "mode", "sample", "min", "max", "mean", "sum", "median", "stddev", "spread", "percentile", "derivative", "non_negative_derivative", "difference", "moving_average", "cumulative_sum", "integral", "holt_winters", "holt_winters_with_fit", "top", "bottom", "unknownfn", "abs", "sin", "pow", "log"}

// Select generates one SELECT statement text.
func Select(r *core.Rand, o Opts, depth int) string {
	var b strings.Builder
	b.WriteString("SELECT ")
	nf := r.Weighted([]int{0, 6, 4, 3, 1, 1, 1})
	if r.Chance(1, 40) {
		nf = r.Range(9, 40) // long field lists (size thresholds in Clone, ColumnNames ...)
	}
	for i := 0; i < nf; i++ {
		if i > 0 {
			b.WriteString(", ")
		}
		b.WriteString(field(r, o))
	}
	if o.Into && depth == 0 && r.Chance(1, 4) {
		b.WriteString(" INTO ")
		b.WriteString(target(r, o))
	}
	b.WriteString(" FROM ")
	ns := r.Weighted([]int{0, 8, 3, 1})
	for i := 0; i < ns; i++ {
		if i > 0 {
			b.WriteString(", ")
		}
		b.WriteString(source(r, o, depth))
	}
	if r.Chance(pc(o, 1, 2), 10) {
		b.WriteString(" WHERE ")
		b.WriteString(Cond(r, o, 0))
	}
	if r.Chance(pc(o, 4, 7), 10) {
		b.WriteString(" GROUP BY ")
		nd := r.Weighted([]int{0, 6, 3, 1})
		for i := 0; i < nd; i++ {
			if i > 0 {
				b.WriteString(", ")
			}
			b.WriteString(dimension(r, o))
		}
		if r.Chance(1, 4) {
			b.WriteString(" " + r.Pick([]string{"fill(none)", "fill(null)", "fill(0)", "fill(previous)", "fill(linear)", "fill(-1.5)", "fill(3)"}))
		}
	}
	if r.Chance(pc(o, 1, 5), 10) {
		b.WriteString(" ORDER BY time " + r.Pick([]string{"ASC", "DESC"}))
	}
	if r.Chance(pc(o, 1, 5), 10) {
		b.WriteString(" LIMIT " + strconv.Itoa(r.Range(1, 100)))
	}
	if r.Chance(pc(o, 1, 4), 20) {
		b.WriteString(" OFFSET " + strconv.Itoa(r.Range(1, 100)))
	}
	if r.Chance(pc(o, 1, 4), 20) {
		b.WriteString(" SLIMIT " + strconv.Itoa(r.Range(1, 100)))
	}
	if r.Chance(pc(o, 1, 4), 20) {
		b.WriteString(" SOFFSET " + strconv.Itoa(r.Range(1, 100)))
	}
	if depth == 0 && r.Chance(pc(o, 1, 4), 20) {
		b.WriteString(" TZ('" + r.Pick([]string{"UTC", "America/New_York", "Europe/Berlin", "Asia/Tokyo", "UTC", "Mars/Olympus_Mons"}) + "')")
	}
	return b.String()
}

func pc(o Opts, normal, all int) int {
	if o.AllClauses {
		return all
	}
	return normal
}

func target(r *core.Rand, o Opts) string {
	if r.Chance(1, 5) {
		// back-reference targets, in every segment count (one too many included)
		return r.Pick([]string{":MEASUREMENT", "rp0.:MEASUREMENT", "db0.rp0.:MEASUREMENT", "db0..:MEASUREMENT", "db0.rp0.m0.:MEASUREMENT", "db0.rp0.:measurement"})
	}
	switch r.Intn(4) {
	case 0:
		return ident(r, measPool, o.SafeNames)
	case 1:
		return "db0.rp0." + ident(r, measPool, o.SafeNames)
	case 2:
		return "db0.." + ident(r, measPool, o.SafeNames)
	default:
		return "rp0." + ident(r, measPool, o.SafeNames)
	}
}

func source(r *core.Rand, o Opts, depth int) string {
	if depth < o.MaxDepth && r.Chance(1, 4) {
		return "(" + Select(r, o, depth+1) + ")"
	}
	if !o.NoRegexSrc && r.Chance(1, 10) {
		return r.Pick([]string{"/m.*/", "/^m[01]$/", "/cpu/", "db0.rp0./m/"})
	}
	m := ident(r, measPool, o.SafeNames)
	switch r.Intn(8) {
	case 0:
		return "db0.rp0." + m
	case 1:
		return "db0.." + m
	case 2:
		return "rp0." + m
	}
	return m
}

func ref(r *core.Rand, o Opts) string {
	var name string
	if r.Chance(2, 3) {
		name = ident(r, fieldPool, o.SafeNames)
	} else {
		name = ident(r, tagPool, o.SafeNames)
	}
	switch r.Intn(9) {
	case 0:
		return name + "::field"
	case 1:
		return name + "::tag"
	case 2:
		return name + "::" + FieldTypes[r.Intn(len(FieldTypes))]
	}
	return name
}

func wildOrRegex(r *core.Rand) string {
	switch r.Intn(7) {
	case 0, 1:
		return "*"
	case 2:
		return "*::field"
	case 3:
		return "*::tag"
	case 4:
		return r.Pick([]string{"/f[0-3]/", "/^f/", "/./", "/x/", "/t|f0/"})
	case 5:
		return r.Pick([]string{"/value|usage/", "/^(host|region)$/", "/nomatch/", "/^w/", "/w1/"})
	}
	return "*"
}

func literal(r *core.Rand) string {
	switch r.Intn(8) {
	case 0:
		return strconv.Itoa(r.Range(0, 100))
	case 1:
		return strconv.FormatFloat(float64(r.Range(0, 1000))/8, 'f', -1, 64)
	case 2:
		return "'" + r.Pick([]string{"a", "b", "server01", "it''s", "x y"}) + "'"
	case 3:
		return r.Pick([]string{"true", "false"})
	case 4:
		return r.Pick([]string{"10s", "1m", "0s", "3h", "1w", "500ms", "1u"})
	case 5:
		return "-" + strconv.Itoa(r.Range(1, 50))
	case 6:
		return r.Pick([]string{"9223372036854775807", "18446744073709551615", "0.5", "1e3", "9223372036854775807ns", "-9223372036854775807ns", "9223372036854775us", "-9223372036854775807ns - 1ns", "106751d", "'2000-01-01'", "'2000-01-32'", "'2000-13-01T00:00:00Z'", "'2000-01-01 25:00:00'", "'2000-01-01T00:00:00.123456789Z'"})
	}
	return strconv.Itoa(r.Range(1, 9))
}

func call(r *core.Rand, o Opts, depth int) string {
	name := r.Pick(aggNames)
	if r.Chance(1, 10) {
		name = strings.ToUpper(name)
	}
	var args []string
	if r.Chance(o.Odd, 40) {
		// zero arguments
		return name + "()"
	}
	// first argument
	switch {
	case r.Chance(o.Wild, 14):
		args = append(args, wildOrRegex(r))
	case depth < 2 && r.Chance(1, 4):
		args = append(args, call(r, o, depth+1))
	case r.Chance(1, 12):
		args = append(args, "distinct("+ref(r, o)+")")
	case r.Chance(o.Odd, 60):
		args = append(args, literal(r))
	default:
		args = append(args, ref(r, o))
	}
	// further arguments
	switch strings.ToLower(name) {
	case "percentile", "sample", "moving_average":
		args = append(args, strconv.Itoa(r.Range(1, 99)))
	case "top", "bottom":
		for k := r.Intn(3); k > 0; k-- {
			args = append(args, ident(r, tagPool, o.SafeNames))
		}
		args = append(args, strconv.Itoa(r.Range(1, 9)))
	case "derivative", "non_negative_derivative", "elapsed", "integral":
		if r.Chance(1, 2) {
			args = append(args, r.Pick([]string{"1s", "10m", "1h"}))
		}
	case "holt_winters", "holt_winters_with_fit":
		args = append(args, strconv.Itoa(r.Range(1, 20)), strconv.Itoa(r.Range(0, 8)))
	case "pow", "log":
		args = append(args, strconv.Itoa(r.Range(2, 10)))
	}
	if r.Chance(o.Odd, 30) {
		// too few arguments: any prefix of the usual list
		args = args[:r.Intn(len(args)+1)]
	}
	if r.Chance(o.Odd, 50) {
		// surplus arguments
		for k := r.Range(1, 3); k > 0; k-- {
			args = append(args, r.Pick([]string{literal(r), ref(r, o), wildOrRegex(r)}))
		}
	}
	return name + "(" + strings.Join(args, ", ") + ")"
}

func arith(r *core.Rand, o Opts, depth int) string {
	ops := []string{"+", "-", "*", "/", "%", "&", "|", "^"}
	operand := func() string {
		switch r.Intn(6) {
		case 0:
			return literal(r)
		case 1:
			if depth < 2 {
				return "(" + arith(r, o, depth+1) + ")"
			}
		case 2:
			return call(r, o, 1)
		case 3:
			if r.Chance(o.Wild, 40) {
				return wildOrRegex(r)
			}
		}
		return ref(r, o)
	}
	return operand() + " " + r.Pick(ops) + " " + operand()
}

func field(r *core.Rand, o Opts) string {
	var e string
	w := []int{10, o.Wild, 8, 3, 1, 1, o.Odd / 3}
	switch r.Weighted(w) {
	case 0:
		e = ref(r, o)
	case 1:
		e = wildOrRegex(r)
	case 2:
		e = call(r, o, 0)
	case 3:
		e = arith(r, o, 0)
	case 4:
		e = "(" + ref(r, o) + ")"
	case 5:
		e = literal(r)
	case 6:
		e = r.Pick([]string{"distinct " + ident(r, fieldPool, true), "time", "time AS ts", "distinct(" + ref(r, o) + ")"})
	}
	if r.Chance(1, 5) && !strings.HasPrefix(e, "*") && !strings.HasPrefix(e, "/") && !strings.Contains(e, " AS ") {
		e += " AS " + r.Pick([]string{"a", "b", "alias1", `"my alias"`, "f0", "count", "mean_1"})
	}
	return e
}

func dimension(r *core.Rand, o Opts) string {
	w := []int{8, 8, o.Wild, o.Wild / 2, o.Odd / 2}
	switch r.Weighted(w) {
	case 0:
		return ident(r, tagPool, o.SafeNames)
	case 1:
		switch r.Intn(6) {
		case 0:
			return "time(" + r.Pick([]string{"10s", "1m", "1h", "7m"}) + ", " + r.Pick([]string{"5s", "-5s", "30s", "0s", "now()", "'2000-01-01T00:00:00Z'"}) + ")"
		}
		return "time(" + r.Pick([]string{"10s", "1m", "1h", "7m", "1d", "1w"}) + ")"
	case 2:
		return "*"
	case 3:
		return r.Pick([]string{"/t[01]/", "/host|region/", "/./", "/nomatch/"})
	default:
		return r.Pick([]string{"time()", "time(0s)", "time(0s, 1s)", "time(-1s)", "time(1s, 2s, 3s)", "foo(1)", "time(f0)", "time(1)", "time(10s, 1)", "bar()", "time(10s, 'x')", "time(5s, -3s)", "time(0s, now())", "time(1s - 1s, now() - 3s)", "time(0s, '2000-01-01T00:00:01Z' + 1s)", "time(0s, '2000-01-01T00:00:01Z')", "time(10s - 10s, 5s)"})
	}
}

// Cond generates a WHERE condition text.
func Cond(r *core.Rand, o Opts, depth int) string {
	atom := func() string {
		w := []int{6, 6, 2, 1, 0, o.Odd / 3}
		if o.TimeCond {
			w[4] = 4
		}
		switch r.Weighted(w) {
		case 0:
			return ident(r, tagPool, o.SafeNames) + " " + r.Pick([]string{"=", "!=", "<>"}) + " '" + r.Pick([]string{"a", "b", "server01", "uswest"}) + "'"
		case 1:
			if r.Chance(o.Odd, 40) {
				return literal(r) + " " + r.Pick([]string{"=", "!=", "<", "<=", ">", ">=", "+", "-"}) + " " + literal(r)
			}
			return ref(r, o) + " " + r.Pick([]string{"=", "!=", "<", "<=", ">", ">="}) + " " + literal(r)
		case 2:
			if r.Chance(o.Odd, 60) {
				// scans as a regex token but does not compile: the statement is rejected
				return ident(r, tagPool, o.SafeNames) + " " + r.Pick([]string{"=~", "!~"}) + " " + r.Pick([]string{"/^(web|db$/", "/[/", "/a{2,1}/", "/web(/"})
			}
			if r.Chance(o.Odd, 50) {
				// a regex operand that is part of a larger expression (operators bind tighter than =~)
				return ident(r, tagPool, o.SafeNames) + " " + r.Pick([]string{"=~", "!~"}) + " " + r.Pick([]string{"/^a$/", "/re/", "/^(a|b)$/"}) + " " + r.Pick([]string{"+ 1", "* 2", "- f0", "/ 2", "% 3", "& 1"})
			}
			return ident(r, tagPool, o.SafeNames) + " " + r.Pick([]string{"=~", "!~"}) + " " + r.Pick([]string{"/^a$/", "/^(a|b)$/", "/serv.*/", "/^server0[12]$/", "/(?i)^a$/", "/a/", "/^$/"})
		case 3:
			return r.Pick([]string{"true", "false"})
		case 4:
			return TimePred(r)
		default:
			return r.Pick([]string{literal(r), ref(r, o), arith(r, o, 1), "10s / 0.5 > " + ref(r, o), ref(r, o) + " / 0", "time", call(r, o, 1) + " > 1"})
		}
	}
	n := r.Weighted([]int{0, 5, 4, 2, 1})
	var parts []string
	for i := 0; i < n; i++ {
		if depth < 2 && r.Chance(1, 5) {
			parts = append(parts, "("+Cond(r, o, depth+1)+")")
		} else {
			parts = append(parts, atom())
		}
	}
	var b strings.Builder
	for i, p := range parts {
		if i > 0 {
			b.WriteString(" " + r.Pick([]string{"AND", "AND", "AND", "OR"}) + " ")
		}
		b.WriteString(p)
	}
	return b.String()
}

// TimePred renders one time bound in one of the forms the properties list.
func TimePred(r *core.Rand) string {
	lit := r.Pick([]string{
		"'2000-01-01T00:00:00Z'", "'2000-01-01T01:00:00Z'", "'2000-01-01'", "'2000-01-01 00:00:00'", "'2000-01-01 12:30:00.5'", "'2000-06-15'", "'2000-06-15 12:00:00'",
		"946684800000000000", "10s", "now()", "now() - 1h", "now() + 10m", "1000000000.0", "'today'", "'1677-09-20 19:12:43'", "'2262-04-11 23:47:17'",
	})
	op := r.Pick([]string{"=", "<", "<=", ">", ">=", "!="})
	t := r.Pick([]string{"time", "time", "time", "TIME", "Time"})
	if r.Chance(1, 3) {
		return lit + " " + op + " " + t
	}
	return t + " " + op + " " + lit
}

// Statement generates a statement of any kind the dispatch tree reaches (texts only; used as
// parse workload and as shared ASTs).
func Statement(r *core.Rand, o Opts) string {
	if r.Chance(3, 5) {
		return Select(r, o, 0)
	}
	id := func() string { return r.Pick([]string{"db0", "mydb", `"my db"`, "rp0", "u1", `"select"`}) }
	dur := func() string { return r.Pick([]string{"1h", "7d", "4w", "INF", "90m", "1d12h"}) }
	str := func() string { return "'" + r.Pick([]string{"pass", "p@ss w0rd", `it\'s`, "", "x=y"}) + "'" }
	from := func() string {
		if r.Chance(1, 2) {
			return " FROM " + source(r, Opts{SafeNames: o.SafeNames}, 9)
		}
		return ""
	}
	where := func() string {
		if r.Chance(1, 2) {
			return " WHERE " + Cond(r, Opts{SafeNames: o.SafeNames, TimeCond: true}, 1)
		}
		return ""
	}
	on := func() string {
		if r.Chance(1, 2) {
			return " ON " + id()
		}
		return ""
	}
	lim := func() string {
		s := ""
		if r.Chance(1, 4) {
			s += " LIMIT " + strconv.Itoa(r.Range(1, 10))
		}
		if r.Chance(1, 6) {
			s += " OFFSET " + strconv.Itoa(r.Range(1, 10))
		}
		return s
	}
	kinds := []func() string{
		func() string { return "SHOW DATABASES" },
		func() string { return "SHOW USERS" },
		func() string { return "SHOW QUERIES" },
		func() string { return "SHOW SHARDS" },
		func() string { return "SHOW SHARD GROUPS" },
		func() string { return "SHOW SUBSCRIPTIONS" },
		func() string { return "SHOW CONTINUOUS QUERIES" },
		func() string { return "SHOW STATS" + r.Pick([]string{"", " FOR 'runtime'", " FOR 'indexes'"}) },
		func() string { return "SHOW DIAGNOSTICS" + r.Pick([]string{"", " FOR 'build'"}) },
		func() string { return "SHOW GRANTS FOR " + id() },
		func() string { return "SHOW RETENTION POLICIES" + on() },
		func() string { return "SHOW MEASUREMENTS" + on() + r.Pick([]string{"", " WITH MEASUREMENT = cpu", " WITH MEASUREMENT =~ /c.*/"}) + where() + lim() },
		func() string { return "SHOW SERIES" + on() + from() + where() + lim() },
		func() string { return "SHOW SERIES " + r.Pick([]string{"", "EXACT "}) + "CARDINALITY" + on() + from() + where() },
		func() string { return "SHOW MEASUREMENT " + r.Pick([]string{"", "EXACT "}) + "CARDINALITY" + on() + from() + where() },
		func() string {
			return "SHOW TAG KEYS" + on() + from() + r.Pick([]string{"", "", " WITH KEY = host", " WITH KEY != host", " WITH KEY =~ /ho.*/", " WITH KEY !~ /x/", " WITH KEY IN (host, region)"}) + where() + lim()
		},
		func() string { return "SHOW TAG KEY " + r.Pick([]string{"", "EXACT "}) + "CARDINALITY" + on() + from() + where() },
		func() string {
			return "SHOW TAG VALUES" + on() + from() + " WITH KEY " + r.Pick([]string{"= host", "!= host", "IN (host, region)", "=~ /ho.*/", "!~ /x/"}) + where() + lim()
		},
		func() string {
			return "SHOW TAG VALUES " + r.Pick([]string{"", "EXACT "}) + "CARDINALITY" + on() + from() + " WITH KEY = host" + where()
		},
		func() string { return "SHOW FIELD KEYS" + on() + from() + lim() },
		func() string { return "SHOW FIELD KEY " + r.Pick([]string{"", "EXACT "}) + "CARDINALITY" + on() + from() + where() },
		func() string {
			s := "CREATE DATABASE " + id()
			if r.Chance(1, 2) {
				s += " WITH DURATION " + dur() + " REPLICATION " + strconv.Itoa(r.Range(1, 3))
				if r.Chance(1, 2) {
					s += " SHARD DURATION " + r.Pick([]string{"1h", "30m", "1d"})
				}
				if r.Chance(1, 2) {
					s += " NAME " + id()
				}
			}
			return s
		},
		func() string { return "DROP DATABASE " + id() },
		func() string {
			return "CREATE RETENTION POLICY " + id() + " ON " + id() + " DURATION " + dur() + " REPLICATION " + strconv.Itoa(r.Range(1, 3)) + r.Pick([]string{"", " SHARD DURATION 1h", " DEFAULT", " SHARD DURATION 30m DEFAULT", " FUTURE LIMIT 1h", " DEFAULT FUTURE LIMIT 6h PAST LIMIT 1d", " PAST LIMIT 30m", " SHARD DURATION INF"})
		},
		func() string {
			return "ALTER RETENTION POLICY " + id() + " ON " + id() + r.Pick([]string{" DURATION 1d", " REPLICATION 2", " DEFAULT", " DURATION 2h REPLICATION 1 SHARD DURATION 1h DEFAULT", " SHARD DURATION 10m", " FUTURE LIMIT 2h", " PAST LIMIT 1w FUTURE LIMIT 1h", " DURATION 1d DURATION 2d", " SHARD DURATION INF"})
		},
		func() string { return "DROP RETENTION POLICY " + id() + " ON " + id() },
		func() string { return "CREATE USER " + id() + " WITH PASSWORD " + str() + r.Pick([]string{"", " WITH ALL PRIVILEGES"}) },
		func() string { return "DROP USER " + id() },
		func() string { return "SET PASSWORD FOR " + id() + " = " + str() },
		func() string { return "GRANT " + r.Pick([]string{"READ", "WRITE", "ALL", "ALL PRIVILEGES"}) + " ON " + id() + " TO " + id() },
		func() string { return "GRANT ALL PRIVILEGES TO " + id() },
		func() string { return "REVOKE " + r.Pick([]string{"READ", "WRITE", "ALL"}) + " ON " + id() + " FROM " + id() },
		func() string { return "REVOKE ALL PRIVILEGES FROM " + id() },
		func() string { return "DROP MEASUREMENT " + ident(r, measPool, o.SafeNames) },
		func() string { return "DROP SERIES" + r.Pick([]string{" FROM cpu", " FROM cpu WHERE host = 'a'", " WHERE host = 'a'"}) },
		func() string { return "DELETE" + r.Pick([]string{" FROM cpu", " FROM cpu WHERE time < '2000-01-01T00:00:00Z'", " WHERE host = 'a'", " FROM /c.*/"}) },
		func() string { return "DROP SHARD " + strconv.Itoa(r.Range(0, 99)) },
		func() string { return "KILL QUERY " + strconv.Itoa(r.Range(0, 99)) + r.Pick([]string{"", ` ON "host:8088"`}) },
		func() string { return "DROP CONTINUOUS QUERY " + id() + " ON " + id() },
		func() string {
			return "CREATE SUBSCRIPTION " + id() + " ON " + id() + "." + id() + " DESTINATIONS " + r.Pick([]string{"ALL", "ANY"}) + " 'udp://h1:9093', 'udp://h2:9093'"
		},
		func() string { return "DROP SUBSCRIPTION " + id() + " ON " + id() + "." + id() },
		func() string {
			return "EXPLAIN " + r.Pick([]string{"", "ANALYZE ", "VERBOSE "}) + Select(r, o, 0)
		},
		func() string {
			rs := ""
			if r.Chance(1, 2) {
				rs = " RESAMPLE" + r.Pick([]string{" EVERY 10s", " FOR 1m", " EVERY 10s FOR 1m"})
			}
			if r.Chance(1, 3) {
				// every combination of RESAMPLE with an inner SELECT that has no call / no GROUP BY time
				inner := r.Pick([]string{"SELECT value INTO " + target(r, o) + " FROM cpu", "SELECT value INTO " + target(r, o) + " FROM cpu GROUP BY host", "SELECT mean(value) INTO " + target(r, o) + " FROM cpu", "SELECT mean(value) INTO " + target(r, o) + " FROM cpu GROUP BY time(0s)", "SELECT count(value) INTO " + target(r, o) + " FROM cpu GROUP BY time(1m), *"})
				return "CREATE CONTINUOUS QUERY " + id() + " ON " + id() + r.Pick([]string{"", " RESAMPLE EVERY 10s", " RESAMPLE FOR 1h", " RESAMPLE EVERY 2m FOR 1m", " RESAMPLE FOR 1ns"}) + " BEGIN " + inner + " END"
			}
			return "CREATE CONTINUOUS QUERY " + id() + " ON " + id() + rs + " BEGIN SELECT mean(value) INTO " + target(r, o) + " FROM cpu GROUP BY time(" + r.Pick([]string{"10s", "1m", "1h"}) + ")" + r.Pick([]string{"", ", host", ", *"}) + " END"
		},
	}
	return kinds[r.Intn(len(kinds))]()
}

// Query joins 1..n statements with separators.
func Query(r *core.Rand, o Opts) string {
	n := r.Weighted([]int{0, 6, 3, 2, 1})
	var b strings.Builder
	for i := 0; i < n; i++ {
		if i > 0 {
			b.WriteString(r.Pick([]string{";", "; ", ";\n", " ;\r\n", ";;", "; -- c\n", "; /* c */ "}))
		}
		b.WriteString(Statement(r, o))
	}
	if r.Chance(1, 3) {
		b.WriteString(";")
	}
	return b.String()
}

// Damage returns a near-miss of a statement text, as a person typing it would produce: one of its
// leading words truncated, pluralised, with a doubled or swapped letter, dropped or repeated, or
// the text cut at a word boundary. Almost every result is rejected by the parser, each on a
// different error path (unknown-statement errors of the dispatch tree, expected-token errors).
func Damage(r *core.Rand, s string) string {
	w := strings.Split(s, " ")
	if len(w) == 0 || s == "" {
		return s
	}
	lim := len(w)
	if lim > 4 && r.Chance(4, 5) {
		lim = 4
	}
	k := r.Intn(lim)
	x := w[k]
	switch r.Intn(8) {
	case 0, 1: // truncated by one or two letters
		n := 1 + r.Intn(2)
		if len(x) > n+1 {
			x = x[:len(x)-n]
		}
		w[k] = x
	case 2: // pluralised
		w[k] = x + r.Pick([]string{"S", "s", "ES"})
	case 3: // doubled last letter
		if len(x) > 0 {
			w[k] = x + x[len(x)-1:]
		}
	case 4: // two adjacent letters swapped
		if len(x) > 2 {
			i := r.Intn(len(x) - 1)
			b := []byte(x)
			b[i], b[i+1] = b[i+1], b[i]
			w[k] = string(b)
		}
	case 5: // word dropped
		w = append(w[:k:k], w[k+1:]...)
	case 6: // word repeated
		w = append(w[:k+1:k+1], w[k:]...)
	default: // cut after word k
		w = w[:k+1]
	}
	return strings.Join(w, " ")
}

var _ = fmt.Sprintf
