// Package simschema is the simulated meta store / shard mapper behind influxql.FieldMapper,
// TypeMapper and CallTypeMapper, and the simulated point valuers (DESIGN.md §3.5). Stubs.
package simschema

import (
	"errors"
	"fmt"
	"sort"
	"strings"

	"github.com/influxdata/influxql"
	"github.com/influxdata/influxql/verifhook"

	"verifsim/gen"
)

// MapperFaults is the pre-drawn fault schedule of a mapper, per call index (0-based).
type MapperFaults struct {
	ErrorAt     []int `json:"error_at,omitempty"`      // FieldDimensions call indices that fail
	CallTypeErr []int `json:"calltype_err,omitempty"`  // CallType call indices that fail
	UnknownAt   []int `json:"unknown_at,omitempty"`    // MapType call indices that answer Unknown (inconsistent service)
	NilMaps     bool  `json:"nil_maps,omitempty"`      // empty answers are nil maps instead of empty maps
	YieldInCall bool  `json:"yield_in_call,omitempty"` // callbacks are scheduler yield points (schedsim)
	// StoredMaps: the service answers from maps it keeps (a cache), handing out the same map values
	// on every call, as a real meta store does. The library must not write to them.
	StoredMaps bool `json:"stored_maps,omitempty"`
}

var ErrInjected = errors.New("injected: meta store unavailable")

// Mapper implements influxql.FieldMapper (+ CallTypeMapper) over a generated schema.
type Mapper struct {
	Schema gen.Schema
	F      MapperFaults
	fdCalls, ctCalls, mtCalls int
	Log    []string
	Fired  map[string]int
	storedF map[string]map[string]influxql.DataType
	storedD map[string]map[string]struct{}
}

func NewMapper(s gen.Schema, f MapperFaults) *Mapper {
	return &Mapper{Schema: s, F: f, Fired: map[string]int{}}
}

func in(xs []int, x int) bool {
	for _, y := range xs {
		if x == y {
			return true
		}
	}
	return false
}

// Lookup returns the measurements a source measurement denotes (by name, or by regex).
func Lookup(s gen.Schema, m *influxql.Measurement) []gen.MeasurementSchema {
	var out []gen.MeasurementSchema
	for _, ms := range s.Measurements {
		if m.Regex != nil && m.Regex.Val != nil {
			if m.Regex.Val.MatchString(ms.Name) {
				out = append(out, ms)
			}
		} else if ms.Name == m.Name {
			out = append(out, ms)
		}
	}
	return out
}

func dt(s string) influxql.DataType { return influxql.DataTypeFromString(s) }

func (m *Mapper) FieldDimensions(mm *influxql.Measurement) (map[string]influxql.DataType, map[string]struct{}, error) {
	if m.F.YieldInCall {
		verifhook.Yield(verifhook.SiteCallback)
	}
	i := m.fdCalls
	m.fdCalls++
	m.Log = append(m.Log, "FD:"+mm.String())
	if in(m.F.ErrorAt, i) {
		m.Fired["mapper-error"]++
		return nil, nil, ErrInjected
	}
	if m.F.StoredMaps && mm.Regex == nil {
		if f, ok := m.storedF[mm.Name]; ok {
			m.Fired["stored-maps"]++
			return f, m.storedD[mm.Name], nil
		}
	}
	fields := map[string]influxql.DataType{}
	dims := map[string]struct{}{}
	for _, ms := range Lookup(m.Schema, mm) {
		// sorted: the loop body calls into the library (DataTypeFromString, String), and a native
		// map order here would make the sequence of scheduling points differ between executions
		for _, k := range sortedFieldNames(ms.Fields) {
			t := ms.Fields[k]
			// the service itself resolves a conflict between the measurements a regex denotes
			if cur, ok := fields[k]; !ok || Rank(t) > Rank(cur.String()) {
				fields[k] = dt(t)
			}
		}
		for _, t := range ms.Tags {
			dims[t] = struct{}{}
		}
	}
	if m.F.NilMaps {
		if len(fields) == 0 {
			fields = nil
			m.Fired["nil-maps"]++
		}
		if len(dims) == 0 {
			dims = nil
		}
	}
	if m.F.StoredMaps && mm.Regex == nil {
		if m.storedF == nil {
			m.storedF = map[string]map[string]influxql.DataType{}
			m.storedD = map[string]map[string]struct{}{}
		}
		m.storedF[mm.Name], m.storedD[mm.Name] = fields, dims
	}
	return fields, dims, nil
}

// StoredDiff reports how the maps the service keeps differ from its schema ("" if intact).
func (m *Mapper) StoredDiff() string {
	for _, name := range sortedNames(m.storedF) {
		f := m.storedF[name]
		wantF, wantT := Columns(m.Schema, &influxql.Measurement{Name: name})
		if len(f) != len(wantF) {
			return fmt.Sprintf("stored field map of %q has %d entries, schema has %d", name, len(f), len(wantF))
		}
		for _, k := range sortedFieldNames(wantF) {
			t := wantF[k]
			if f[k].String() != t {
				return fmt.Sprintf("stored field map of %q: %s is %s, schema says %s", name, k, f[k], t)
			}
		}
		d := m.storedD[name]
		if len(d) != len(wantT) {
			return fmt.Sprintf("stored tag set of %q has %d entries, schema has %d", name, len(d), len(wantT))
		}
	}
	return ""
}

func (m *Mapper) MapType(mm *influxql.Measurement, field string) influxql.DataType {
	if m.F.YieldInCall {
		verifhook.Yield(verifhook.SiteCallback)
	}
	i := m.mtCalls
	m.mtCalls++
	if in(m.F.UnknownAt, i) {
		m.Fired["maptype-unknown"]++
		return influxql.Unknown
	}
	var typ influxql.DataType
	for _, ms := range Lookup(m.Schema, mm) {
		if t, ok := ms.Fields[field]; ok {
			if Rank(t) > Rank(typ.String()) {
				typ = dt(t)
			}
			continue
		}
		for _, tg := range ms.Tags {
			if tg == field && Rank("tag") > Rank(typ.String()) {
				typ = influxql.Tag
			}
		}
	}
	return typ
}

// CallTypeOf is the stub's function typing table (shared with the C12 reference model, which is
// allowed to know what the stub answers).
func CallTypeOf(name string, args []influxql.DataType) influxql.DataType {
	switch name {
	case "mean", "median", "stddev", "integral", "derivative", "non_negative_derivative", "moving_average", "holt_winters", "holt_winters_with_fit", "percentile_approx", "sin", "pow", "log":
		return influxql.Float
	case "count", "elapsed":
		return influxql.Integer
	case "min", "max", "sum", "first", "last", "spread", "mode", "sample", "distinct", "top", "bottom", "percentile", "difference", "cumulative_sum", "abs":
		if len(args) > 0 {
			return args[0]
		}
	}
	return influxql.Unknown
}

func (m *Mapper) CallType(name string, args []influxql.DataType) (influxql.DataType, error) {
	i := m.ctCalls
	m.ctCalls++
	if in(m.F.CallTypeErr, i) {
		m.Fired["calltype-error"]++
		return influxql.Unknown, fmt.Errorf("injected: cannot type %s()", name)
	}
	return CallTypeOf(name, args), nil
}

// ResetCalls restarts the per-call fault indices (after a history prelude) and returns how many
// FieldDimensions calls the prelude made.
func (m *Mapper) ResetCalls() int {
	n := m.fdCalls
	m.fdCalls, m.ctCalls, m.mtCalls = 0, 0, 0
	return n
}

func (m *Mapper) LogString() string { return strings.Join(m.Log, ";") }

// Columns is the reference view of a measurement source: typed fields and tag keys, merged over
// the measurements it denotes with the documented precedence float > integer > unsigned > string
// > boolean (written out here, not read from DataType.LessThan).
func Columns(s gen.Schema, mm *influxql.Measurement) (map[string]string, []string) {
	fields := map[string]string{}
	tagset := map[string]bool{}
	for _, ms := range Lookup(s, mm) {
		for k, t := range ms.Fields {
			if cur, ok := fields[k]; !ok || Rank(t) > Rank(cur) {
				fields[k] = t
			}
		}
		for _, t := range ms.Tags {
			tagset[t] = true
		}
	}
	var tags []string
	for t := range tagset {
		tags = append(tags, t)
	}
	sort.Strings(tags)
	return fields, tags
}

// Rank is the documented type precedence (higher wins).
func Rank(t string) int {
	switch t {
	case "float":
		return 9
	case "integer":
		return 8
	case "unsigned":
		return 7
	case "string":
		return 6
	case "boolean":
		return 5
	case "time":
		return 4
	case "duration":
		return 3
	case "tag":
		return 2
	case "field":
		return 1
	}
	return 0
}

func sortedFieldNames(m map[string]string) []string {
	ks := make([]string, 0, len(m))
	for k := range m {
		ks = append(ks, k)
	}
	sort.Strings(ks)
	return ks
}

func sortedNames(m map[string]map[string]influxql.DataType) []string {
	ks := make([]string, 0, len(m))
	for k := range m {
		ks = append(ks, k)
	}
	sort.Strings(ks)
	return ks
}

// FrozenMapper is a schema service shared by several caller goroutines: it answers from maps it
// built once and never writes anything afterwards (so any race on it is the library's doing).
type FrozenMapper struct {
	schema gen.Schema
	fields map[string]map[string]influxql.DataType
	tags   map[string]map[string]struct{}
	yield  bool
}

func NewFrozenMapper(s gen.Schema, yieldInCall bool) *FrozenMapper {
	f := &FrozenMapper{schema: s, fields: map[string]map[string]influxql.DataType{}, tags: map[string]map[string]struct{}{}, yield: yieldInCall}
	for _, ms := range s.Measurements {
		ff := map[string]influxql.DataType{}
		for _, k := range sortedFieldNames(ms.Fields) {
			ff[k] = dt(ms.Fields[k])
		}
		tt := map[string]struct{}{}
		for _, t := range ms.Tags {
			tt[t] = struct{}{}
		}
		f.fields[ms.Name], f.tags[ms.Name] = ff, tt
	}
	return f
}

func (f *FrozenMapper) FieldDimensions(mm *influxql.Measurement) (map[string]influxql.DataType, map[string]struct{}, error) {
	if f.yield {
		verifhook.Yield(verifhook.SiteCallback)
	}
	if mm.Regex == nil {
		if ff, ok := f.fields[mm.Name]; ok {
			return ff, f.tags[mm.Name], nil
		}
		return map[string]influxql.DataType{}, map[string]struct{}{}, nil
	}
	fields := map[string]influxql.DataType{}
	dims := map[string]struct{}{}
	for _, ms := range Lookup(f.schema, mm) {
		for _, k := range sortedFieldNames(ms.Fields) {
			t := ms.Fields[k]
			if cur, ok := fields[k]; !ok || Rank(t) > Rank(cur.String()) {
				fields[k] = dt(t)
			}
		}
		for _, t := range ms.Tags {
			dims[t] = struct{}{}
		}
	}
	return fields, dims, nil
}

func (f *FrozenMapper) MapType(mm *influxql.Measurement, field string) influxql.DataType {
	if f.yield {
		verifhook.Yield(verifhook.SiteCallback)
	}
	var typ influxql.DataType
	for _, ms := range Lookup(f.schema, mm) {
		if t, ok := ms.Fields[field]; ok {
			if Rank(t) > Rank(typ.String()) {
				typ = dt(t)
			}
			continue
		}
		for _, tg := range ms.Tags {
			if tg == field && Rank("tag") > Rank(typ.String()) {
				typ = influxql.Tag
			}
		}
	}
	return typ
}

func (f *FrozenMapper) CallType(name string, args []influxql.DataType) (influxql.DataType, error) {
	return CallTypeOf(name, args), nil
}

// Intact reports whether the frozen maps still match the schema ("" if so).
func (f *FrozenMapper) Intact() string {
	for _, ms := range f.schema.Measurements {
		if len(f.fields[ms.Name]) != len(ms.Fields) {
			return fmt.Sprintf("field map of %q has %d entries, schema has %d", ms.Name, len(f.fields[ms.Name]), len(ms.Fields))
		}
		if len(f.tags[ms.Name]) != len(uniq(ms.Tags)) {
			return fmt.Sprintf("tag set of %q has %d entries, schema has %d", ms.Name, len(f.tags[ms.Name]), len(uniq(ms.Tags)))
		}
	}
	return ""
}

func uniq(xs []string) map[string]bool {
	m := map[string]bool{}
	for _, x := range xs {
		m[x] = true
	}
	return m
}
