package simschema

import (
	"math"
	"time"

	"github.com/influxdata/influxql/verifhook"
)

// ValuerPlan is the pre-drawn behaviour of a simulated point valuer.
type ValuerPlan struct {
	Vars     map[string]VarVal `json:"vars,omitempty"`
	NowNanos int64             `json:"now_nanos"`          // simulated clock value handed to now()
	NowZero  bool              `json:"now_zero,omitempty"` // the clock was never set (zero time)
	Zone     string            `json:"zone,omitempty"`     // "" = nil zone
	CallOK   bool              `json:"call_ok"`            // whether Call answers now()
	HasCall  bool              `json:"has_call"`           // implements CallValuer
	HasZone  bool              `json:"has_zone"`           // implements ZoneValuer
	Yield    bool              `json:"yield,omitempty"`
}

// VarVal is one binding: kind selects the Go value the evaluator will see.
type VarVal struct {
	Kind string  `json:"kind"` // int64 float64 string bool uint64 duration time nil int uint8 bytes ptr nan inf ninf minint maxint maxuint missing
	I    int64   `json:"i,omitempty"`
	F    float64 `json:"f,omitempty"`
	S    string  `json:"s,omitempty"`
}

func (v VarVal) Value() (interface{}, bool) {
	switch v.Kind {
	case "missing":
		return nil, false
	case "int64":
		return v.I, true
	case "float64":
		return v.F, true
	case "string":
		return v.S, true
	case "bool":
		return v.I != 0, true
	case "uint64":
		return uint64(v.I), true
	case "duration":
		return time.Duration(v.I), true
	case "time":
		return time.Unix(0, v.I).UTC(), true
	case "nil":
		return nil, true
	case "int":
		return int(v.I), true
	case "uint8":
		return uint8(v.I), true
	case "bytes":
		return []byte(v.S), true
	case "ptr":
		x := v.I
		return &x, true
	case "nan":
		return math.NaN(), true
	case "inf":
		return math.Inf(1), true
	case "ninf":
		return math.Inf(-1), true
	case "minint":
		return int64(math.MinInt64), true
	case "maxint":
		return int64(math.MaxInt64), true
	case "maxuint":
		return uint64(math.MaxUint64), true
	}
	return nil, false
}

// base valuer: Value only
type baseValuer struct {
	p     *ValuerPlan
	Calls int
}

func (b *baseValuer) Value(key string) (interface{}, bool) {
	if b.p.Yield {
		verifhook.Yield(verifhook.SiteCallback)
	}
	b.Calls++
	if key == "now()" && b.p.CallOK && !b.p.NowZero {
		return time.Unix(0, b.p.NowNanos).UTC(), true
	}
	if v, ok := b.p.Vars[key]; ok {
		return v.Value()
	}
	return nil, false
}

func (b *baseValuer) call(name string, args []interface{}) (interface{}, bool) {
	if b.p.Yield {
		verifhook.Yield(verifhook.SiteCallback)
	}
	b.Calls++
	if name == "now" && len(args) == 0 && b.p.CallOK {
		if b.p.NowZero {
			return time.Time{}, true
		}
		return time.Unix(0, b.p.NowNanos).UTC(), true
	}
	return nil, false
}

func (b *baseValuer) zone() *time.Location {
	if b.p.Zone == "" {
		return nil
	}
	loc, err := time.LoadLocation(b.p.Zone)
	if err != nil {
		return nil
	}
	return loc
}

type callValuer struct{ *baseValuer }

func (c callValuer) Call(name string, args []interface{}) (interface{}, bool) { return c.call(name, args) }

type zoneValuer struct{ *baseValuer }

func (z zoneValuer) Zone() *time.Location { return z.zone() }

type fullValuer struct{ *baseValuer }

func (f fullValuer) Call(name string, args []interface{}) (interface{}, bool) { return f.call(name, args) }
func (f fullValuer) Zone() *time.Location                                      { return f.zone() }

// Valuer is the influxql.Valuer interface (kept structural to avoid an import cycle in tests).
type Valuer interface {
	Value(key string) (interface{}, bool)
}

// NewValuer builds the valuer the plan describes: plain, +Call, +Zone, or both.
func NewValuer(p *ValuerPlan) Valuer {
	b := &baseValuer{p: p}
	switch {
	case p.HasCall && p.HasZone:
		return fullValuer{b}
	case p.HasCall:
		return callValuer{b}
	case p.HasZone:
		return zoneValuer{b}
	}
	return b
}
