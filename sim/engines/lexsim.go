package engines

import (
	"bufio"
	"encoding/json"
	"fmt"
	"reflect"
	"strconv"
	"strings"
	"unicode/utf8"
	"unsafe"

	"github.com/influxdata/influxql"
	"github.com/influxdata/influxql/verifhook"

	"verifsim/core"
	"verifsim/gen"
	"verifsim/simstream"
)

// C05 — streamsim/lexer: token extents measured through the simulated stream's I/O accounting,
// positions against an independent line/column counter, EOF or a permanent error injected at
// every byte offset of each sampled text (DESIGN.md §4 C05).

type C05Plan struct {
	Text    []byte `json:"text"`
	Show    string `json:"show"`
	BufSize int    `json:"buf_size"`
	Chunk   []int  `json:"chunk"`          // chunk cycle of the primary policy
	OnlyCut int    `json:"only_cut"`       // >= 0: examine this single truncation offset only (set by minimisation)
	Kinds   []string `json:"kinds"`        // terminal kinds to enumerate
	Parse   bool   `json:"parse"`          // also check ParseError.Pos against the tiling
}

type C05 struct{}

func (C05) Meta() core.Meta {
	return core.Meta{
		Property: "C05", Engine: "streamsim", Level: "fault_enumeration",
		Rule: "A case = one sampled text (token soups over every token spelling, multi-line CR/LF/CRLF mixes, multi-byte and invalid UTF-8, comments, unterminated strings, bad escapes, mutated statements). For that text EVERY truncation offset k in [0,len] is enumerated, for each terminal kind (EOF, permanent error, data+error) and chunk policy (whole, 1 byte, drawn cycle); each (text,k,kind,policy) scan is an evaluation. Non-trivial = text of >= 2 tokens. Distinct = distinct text. Exhaustive over crash points per text, sampled over texts.",
		Assumptions: []string{
			"token extents come from I/O accounting: bytes delivered by the simulated stream minus bytes still buffered in bufio.Reader minus the bytes of runes pending in the scanner's pushback ring (read through reflect/unsafe; if the fields cannot be found the tiling probe is reported off)",
			"texts containing NUL are checked for termination and tiling only (NUL is the scanner's EOF marker)",
			"the space of texts is sampled; crash points per text are enumerated",
		},
		Real:       []string{"influxql Scanner, reader, bufScanner, Parser (instrumented copy of the working tree)", "bufio.Reader"},
		Stub:       []string{"input source (simstream.Stream)"},
		ProbeNames: []string{"tiling-checked", "positions-checked", "crlf", "lone-cr", "multibyte", "invalid-utf8", "multi-line", "cut-in-crlf", "cut-in-rune", "refill-with-pending", "token:STRING", "token:BADSTRING", "token:BADESCAPE", "token:COMMENT", "token:DURATIONVAL", "token:NUMBER", "token:BOUNDPARAM", "token:ILLEGAL", "parse-error-pos-checked", "prefix-stability-checked", "interleaved-scanners"},
		FaultNames: []string{"cut:eof", "cut:err", "cut:data+err"},
	}
}

func (C05) Runs(tier string) uint64 {
	if tier == "thorough" {
		return 150000
	}
	return 6000
}

func lexText(r *core.Rand) []byte {
	switch r.Weighted([]int{6, 3, 3, 2}) {
	case 0:
		return []byte(Soup(r, r.Range(1, 25)))
	case 1:
		o := gen.Opts{MaxDepth: 1, Wild: 5, Odd: 4, Into: true, TimeCond: true}
		t := gen.Query(r, o)
		// re-space with line breaks
		var b strings.Builder
		for _, w := range strings.SplitAfter(t, " ") {
			b.WriteString(w)
			if r.Chance(1, 6) {
				b.WriteString(r.Pick([]string{"\n", "\r\n", "\r", "\n\n", "\r\r\n", "\t", "-- c\n", "/* c\r\nd */"}))
			}
		}
		return []byte(b.String())
	case 2:
		o := gen.Opts{MaxDepth: 1, Wild: 5, Odd: 4, TimeCond: true}
		return mutateBytes(r, []byte(gen.Query(r, o)))
	default:
		// line-structure stress
		parts := []string{"a", "\r", "\n", "\r\n", " ", "'s'", "'x\ny'", "é", "\"q\r\nq\"", "/*\r*/", "--\r\n", "1", ";", "\xf0\x9f", "日", "'\\", "\t", "$p", "=~", "/re\n/"}
		var b strings.Builder
		for k := r.Range(2, 30); k > 0; k-- {
			b.WriteString(parts[r.Intn(len(parts))])
		}
		return []byte(b.String())
	}
}

func (C05) NewPlan(r *core.Rand, tier string, i uint64) interface{} {
	p := &C05Plan{OnlyCut: -1}
	t := lexText(r)
	if len(t) > 300 {
		t = t[:300]
	}
	p.Text = t
	p.Show = strconv.QuoteToASCII(string(t))
	p.BufSize = []int{16, 16, 17, 32, 4096}[r.Intn(5)]
	for k := r.Range(1, 4); k > 0; k-- {
		p.Chunk = append(p.Chunk, r.Range(1, 7))
	}
	p.Kinds = []string{"eof", r.Pick([]string{"err", "data+err", "data+eof", "unexpected-eof"})}
	p.Parse = r.Chance(1, 2)
	return p
}

func (C05) Decode(b []byte) (interface{}, error) {
	p := &C05Plan{}
	return p, json.Unmarshal(b, p)
}

// ---- accessor (reflect/unsafe; degrades to "unavailable") ---------------------------------------

type scanProbe struct {
	ok  bool
	rd  reflect.Value // *reader (addressable elem)
	br  *bufio.Reader
	why string
}

func fieldAny(v reflect.Value, name string) (reflect.Value, bool) {
	f := v.FieldByName(name)
	if !f.IsValid() {
		return f, false
	}
	return reflect.NewAt(f.Type(), unsafe.Pointer(f.UnsafeAddr())).Elem(), true
}

func newScanProbe(s *influxql.Scanner) (p *scanProbe) {
	p = &scanProbe{}
	defer func() {
		if recover() != nil {
			p = &scanProbe{why: "scanner internals have an unexpected layout"}
		}
	}()
	sv := reflect.ValueOf(s).Elem()
	rf, ok := fieldAny(sv, "r")
	if !ok || rf.Kind() != reflect.Ptr || rf.IsNil() {
		p.why = "Scanner has no pointer field r"
		return p
	}
	rd := rf.Elem()
	if rd.Kind() != reflect.Struct {
		p.why = "Scanner.r is not a struct pointer"
		return p
	}
	inner, ok := fieldAny(rd, "r")
	if !ok {
		p.why = "reader has no field r"
		return p
	}
	br, ok := inner.Interface().(*bufio.Reader)
	if !ok {
		p.why = fmt.Sprintf("reader.r is %T, not *bufio.Reader", inner.Interface())
		return p
	}
	for _, n := range []string{"n", "i", "buf"} {
		if _, ok := fieldAny(rd, n); !ok {
			p.why = "reader has no field " + n
			return p
		}
	}
	p.ok, p.rd, p.br = true, rd, br
	return p
}

func asInt(v reflect.Value) (int, bool) {
	switch v.Kind() {
	case reflect.Int, reflect.Int8, reflect.Int16, reflect.Int32, reflect.Int64:
		return int(v.Int()), true
	case reflect.Uint, reflect.Uint8, reflect.Uint16, reflect.Uint32, reflect.Uint64, reflect.Uintptr:
		return int(v.Uint()), true
	}
	return 0, false
}

// pending returns the runes waiting in the pushback ring, oldest first.
func (p *scanProbe) pending() (out []rune) {
	defer func() {
		if recover() != nil {
			// the ring does not look the way this accessor expects: the probe switches itself off
			p.ok, p.why, out = false, "pushback ring has an unexpected layout", nil
		}
	}()
	n, _ := fieldAny(p.rd, "n")
	i, _ := fieldAny(p.rd, "i")
	buf, _ := fieldAny(p.rd, "buf")
	cnt, ok1 := asInt(n)
	idx, ok2 := asInt(i)
	if !ok1 || !ok2 || (buf.Kind() != reflect.Array && buf.Kind() != reflect.Slice) {
		p.ok, p.why = false, "pushback ring counters are not integers"
		return nil
	}
	ln := buf.Len()
	if cnt <= 0 || ln == 0 {
		return nil
	}
	if cnt > ln {
		cnt = ln
	}
	out = make([]rune, 0, cnt)
	for j := cnt - 1; j >= 0; j-- {
		e := buf.Index(((idx-j)%ln + ln) % ln)
		ch, ok := fieldAny(e, "ch")
		if !ok {
			p.ok, p.why = false, "ring entries have no field ch"
			return nil
		}
		c, ok := asInt(ch)
		if !ok {
			p.ok, p.why = false, "ring entry ch is not an integer"
			return nil
		}
		out = append(out, rune(c))
	}
	return out
}

// consumed computes how many bytes of text the scanner has consumed net of look-ahead.
func (p *scanProbe) consumed(text []byte, delivered int) (int, string) {
	off := delivered - p.br.Buffered()
	pend := p.pending()
	for j := len(pend) - 1; j >= 0; j-- {
		ch := pend[j]
		switch {
		case ch < 0:
			// the scanner's end-of-input marker: stands for zero bytes
		case ch == 0:
			// a NUL byte of the text, or (in trees where NUL is the end-of-input marker) zero bytes at the end
			if off > 0 && off <= len(text) && text[off-1] == 0 {
				off--
			}
		case ch == '\n':
			switch {
			case off >= 2 && text[off-2] == '\r' && text[off-1] == '\n':
				off -= 2
			case off >= 1 && (text[off-1] == '\n' || text[off-1] == '\r'):
				off--
			default:
				return off, fmt.Sprintf("pending newline does not match text before offset %d", off)
			}
		default:
			if off <= 0 {
				return off, "pending rune before start of text"
			}
			r, sz := utf8.DecodeLastRune(text[:off])
			if r != ch {
				return off, fmt.Sprintf("pending rune %q does not match text rune %q before offset %d", ch, r, off)
			}
			off -= sz
		}
	}
	return off, ""
}

// ---- reference position counter (15 lines, from the property text) -----------------------------

type refPos struct{ line, col int }

// positions returns, for every byte offset that starts a character, its zero-based line and column
// (column counts runes; CRLF or a lone CR is one line break), plus the position after the end.
func positions(t []byte) map[int]refPos {
	m := map[int]refPos{}
	line, col := 0, 0
	for i := 0; i < len(t); {
		m[i] = refPos{line, col}
		switch {
		case t[i] == '\r' && i+1 < len(t) && t[i+1] == '\n':
			i += 2
			line, col = line+1, 0
		case t[i] == '\r' || t[i] == '\n':
			i++
			line, col = line+1, 0
		default:
			_, sz := utf8.DecodeRune(t[i:])
			i += sz
			col++
		}
	}
	m[len(t)] = refPos{line, col}
	return m
}

type lexTok struct {
	tok        influxql.Token
	lit        string
	pos        influxql.Pos
	start, end int
}

type lexScan struct {
	toks    []lexTok
	pan     *core.PanicInfo
	problem string // accounting problem (harness-level), not a violation by itself
	eofStable bool
	steps   int64
	probeOK bool
	probeWhy string
	refill  bool
}

func scanAll(text []byte, sp simstream.Plan, bufSize int) *lexScan {
	out := &lexScan{}
	verifhook.SetBufSize(bufSize)
	eff := text
	if sp.Cut >= 0 && sp.Cut < len(text) {
		eff = text[:sp.Cut]
	}
	st := simstream.New(text, sp)
	budget := int64(20000 + 400*len(eff))
	verifhook.BeginOp(budget)
	out.pan = core.Guard(func() {
		s := influxql.NewScanner(st)
		pr := newScanProbe(s)
		out.probeOK, out.probeWhy = pr.ok, pr.why
		prev := 0
		limit := len(eff) + 3
		for n := 0; ; n++ {
			before := st.Reads
			tok, pos, lit := s.Scan()
			lt := lexTok{tok: tok, lit: lit, pos: pos, start: prev, end: -1}
			if pr.ok {
				c, why := pr.consumed(eff, st.Delivered)
				if !pr.ok {
					// the accessor gave up midway: no extents for this scan at all
					out.probeOK, out.probeWhy, out.problem = false, pr.why, ""
				} else {
					if why != "" && out.problem == "" {
						out.problem = why
					}
					lt.end = c
					prev = c
					if st.Reads > before && len(pr.pending()) > 0 {
						out.refill = true
					}
				}
			}
			out.toks = append(out.toks, lt)
			if tok == influxql.EOF {
				break
			}
			if n > limit {
				out.problem = "" // reported as a violation by the caller via token count
				break
			}
		}
		// EOF must be sticky
		out.eofStable = true
		if len(out.toks) > 0 && out.toks[len(out.toks)-1].tok == influxql.EOF {
			for k := 0; k < 3; k++ {
				if tok, _, _ := s.Scan(); tok != influxql.EOF {
					out.eofStable = false
				}
			}
		}
	})
	out.steps = verifhook.EndOp()
	verifhook.SetBufSize(4096)
	return out
}

func sameTokens(a, b []lexTok) string {
	if len(a) != len(b) {
		return fmt.Sprintf("%d tokens vs %d tokens", len(a), len(b))
	}
	for i := range a {
		if a[i].tok != b[i].tok || a[i].lit != b[i].lit || a[i].pos != b[i].pos {
			return fmt.Sprintf("token %d: %s %q @%d:%d vs %s %q @%d:%d", i, tokName(a[i].tok), a[i].lit, a[i].pos.Line, a[i].pos.Char, tokName(b[i].tok), b[i].lit, b[i].pos.Line, b[i].pos.Char)
		}
	}
	return ""
}

// interleavedScanners: scanner A runs to EOF; scanner B is created over its own stream; A is asked
// for more tokens (it must keep answering EOF); B must then scan exactly what a scanner alone scans.
func interleavedScanners(text []byte, bufSize int, alone []lexTok, res *core.RunResult) {
	verifhook.SetBufSize(bufSize)
	defer verifhook.SetBufSize(4096)
	var bToks []lexTok
	aAfter := ""
	verifhook.BeginOp(int64(40000 + 800*len(text)))
	pan := core.Guard(func() {
		a := influxql.NewScanner(simstream.New(text, simstream.Plan{Cut: -1, Chunks: []int{7}}))
		for n := 0; n < len(text)+3; n++ {
			if tok, _, _ := a.Scan(); tok == influxql.EOF {
				break
			}
		}
		b := influxql.NewScanner(simstream.New(text, simstream.Plan{Cut: -1, Chunks: []int{5}}))
		for k := 0; k < 3; k++ {
			if tok, _, lit := a.Scan(); tok != influxql.EOF {
				aAfter = fmt.Sprintf("%s %q", tokName(tok), lit)
			}
		}
		for n := 0; n < len(text)+3; n++ {
			tok, pos, lit := b.Scan()
			bToks = append(bToks, lexTok{tok: tok, lit: lit, pos: pos})
			if tok == influxql.EOF {
				break
			}
		}
	})
	res.Steps += verifhook.EndOp()
	res.Probe("interleaved-scanners")
	ctx := "text=" + strconv.QuoteToASCII(string(text))
	if pan != nil {
		res.Violate("scanner-interference:"+pan.Sig(), "two scanners used alternately on one goroutine: "+pan.Msg+"\n"+ctx)
		return
	}
	if aAfter != "" {
		res.Violate("scanner-interference", "a scanner that had reached EOF returned "+aAfter+" after another scanner was created\n"+ctx)
		return
	}
	if d := sameTokens(alone, bToks); d != "" {
		res.Violate("scanner-interference", "a scanner created after another one reached EOF does not scan its own text as it would alone: "+d+"\n"+ctx)
	}
}

func hasNUL(t []byte) bool {
	for _, c := range t {
		if c == 0 {
			return true
		}
	}
	return false
}

func (C05) Exec(pi interface{}) *core.RunResult {
	p := pi.(*C05Plan)
	res := &core.RunResult{}
	text := p.Text
	if p.BufSize < 16 {
		p.BufSize = 4096
	}
	if len(p.Kinds) == 0 {
		p.Kinds = []string{"eof"}
	}
	nul := false // NUL is an ordinary character since the end-of-input marker fix
	textProbes(text, res)
	show := func(k int, kind string, chunks []int) string {
		return fmt.Sprintf("text=%s cut=%d kind=%s chunks=%v buf=%d", strconv.QuoteToASCII(string(text)), k, kind, chunks, p.BufSize)
	}
	// fault-free scan of the whole text (reference for prefix stability)
	full := scanAll(text, simstream.Plan{Cut: -1, Chunks: []int{1 << 20}}, 4096)
	res.Steps += full.steps
	evals := 0
	policies := [][]int{{1 << 20}, {1}, p.Chunk}
	lo, hi := 0, len(text)
	if p.OnlyCut >= 0 && p.OnlyCut <= len(text) {
		lo, hi = p.OnlyCut, p.OnlyCut
	}
	for k := lo; k <= hi; k++ {
		eff := text[:k]
		ref := positions(eff)
		var firstToks []lexTok
		firstCtx := ""
		for _, kind := range p.Kinds {
			for pi2, chunks := range policies {
				if len(chunks) == 0 {
					continue
				}
				if kind != "eof" && pi2 == 0 && k != len(text) {
					// the whole-read policy with an error kind adds nothing over eof for k < len
				}
				sp := simstream.Plan{Cut: k, CutKind: kind, Chunks: chunks}
				if k == len(text) {
					sp.Cut = -1
					if kind != "eof" {
						sp.CutKind = kind
					}
				}
				sc := scanAll(text, sp, p.BufSize)
				evals++
				res.Steps += sc.steps
				if kind == "eof" {
					res.Fault("cut:eof")
				} else if strings.Contains(kind, "data") {
					res.Fault("cut:data+err")
				} else {
					res.Fault("cut:err")
				}
				if sc.refill {
					res.Probe("refill-with-pending")
				}
				ctx := show(k, kind, chunks)
				if sc.pan != nil {
					if sc.pan.Class == "budget" {
						res.Violate("lexer-nontermination", "scanning did not reach EOF within the step budget\n"+ctx)
					} else {
						res.Violate(sc.pan.Sig(), fmt.Sprintf("scanner panicked: %s\nstack: %v\n%s", sc.pan.Msg, sc.pan.Stack, ctx))
					}
					continue
				}
				// (1) termination
				if n := len(sc.toks); n == 0 || sc.toks[n-1].tok != influxql.EOF || n > len(eff)+2 {
					res.Violate("lexer-token-count", fmt.Sprintf("%d tokens for %d bytes and no EOF within len+2 tokens\n%s", n, len(eff), ctx))
					continue
				}
				if !sc.eofStable {
					res.Violate("lexer-eof-not-sticky", "a Scan after EOF returned a non-EOF token\n"+ctx)
				}
				// (1b) the token stream is a function of the bytes, not of how they were delivered or of
				// how the stream ended (needs no access to scanner internals)
				if firstToks == nil {
					firstToks, firstCtx = sc.toks, ctx
				} else if d := sameTokens(firstToks, sc.toks); d != "" {
					res.Violate("scanner-delivery-dependence", fmt.Sprintf("the same %d bytes scan to different tokens depending on delivery: %s\n  A: %s\n     %s\n  B: %s\n     %s", len(eff), d, firstCtx, tokList(firstToks), ctx, tokList(sc.toks)))
				}
				// (2) tiling
				if sc.probeOK {
					res.Probe("tiling-checked")
					if sc.problem != "" {
						res.Violate("tiling:accounting", "consumed-byte accounting is inconsistent with the text: "+sc.problem+"\n"+ctx)
						continue
					}
					prev := 0
					bad := false
					for i, t := range sc.toks {
						if t.start != prev || t.end < t.start || (t.end == t.start && t.tok != influxql.EOF) {
							res.Violate("tiling:"+tokName(t.tok), fmt.Sprintf("token %d (%s %q) covers bytes [%d,%d) but the previous token ended at %d: bytes skipped, re-read or an empty token\ntokens: %s\n%s", i, tokName(t.tok), t.lit, t.start, t.end, prev, tokList(sc.toks), ctx))
							bad = true
							break
						}
						prev = t.end
					}
					if !bad && prev != len(eff) {
						res.Violate("tiling:end", fmt.Sprintf("tokens end at byte %d, text has %d bytes\ntokens: %s\n%s", prev, len(eff), tokList(sc.toks), ctx))
						bad = true
					}
					if bad {
						continue
					}
					// (3) positions
					if !nul {
						res.Probe("positions-checked")
						for i, t := range sc.toks {
							want, ok := ref[t.start]
							if !ok {
								continue // starts inside a CRLF pair: cannot happen when tiling holds
							}
							if t.pos.Line != want.line || t.pos.Char != want.col {
								sig := posSig(eff, ref, t)
								res.Violate(sig, fmt.Sprintf("token %d (%s %q) starts at byte %d = line %d, char %d but reports line %d, char %d\ntokens: %s\n%s", i, tokName(t.tok), t.lit, t.start, want.line, want.col, t.pos.Line, t.pos.Char, tokList(sc.toks), ctx))
							}
						}
					}
					// (4) prefix stability against the fault-free scan of the whole text
					if full.pan == nil && full.probeOK && k < len(text) {
						res.Probe("prefix-stability-checked")
						for i, t := range sc.toks {
							if t.end+9 > k || i >= len(full.toks) {
								break
							}
							f := full.toks[i]
							if f.tok != t.tok || f.lit != t.lit || f.start != t.start || f.end != t.end || f.pos != t.pos {
								res.Violate("prefix-instability", fmt.Sprintf("token %d differs between the scan of the whole text (%s %q [%d,%d) @%d:%d) and the scan truncated at %d (%s %q [%d,%d) @%d:%d)\n%s", i, tokName(f.tok), f.lit, f.start, f.end, f.pos.Line, f.pos.Char, k, tokName(t.tok), t.lit, t.start, t.end, t.pos.Line, t.pos.Char, ctx))
								break
							}
						}
					}
				} else {
					res.Probe("tiling-off:" + sc.probeWhy)
				}
				for _, t := range sc.toks {
					switch t.tok {
					case influxql.STRING, influxql.BADSTRING, influxql.BADESCAPE, influxql.COMMENT, influxql.DURATIONVAL, influxql.NUMBER, influxql.BOUNDPARAM, influxql.ILLEGAL:
						if k == len(text) && pi2 == 0 && kind == "eof" {
							res.Probe("token:" + tokName(t.tok))
						}
					}
				}
			}
		}
		if k > 0 && k < len(text) {
			if text[k-1] == '\r' && text[k] == '\n' {
				res.Probe("cut-in-crlf")
			}
			if text[k] >= 0x80 && text[k] < 0xC0 && text[k-1] >= 0x80 {
				res.Probe("cut-in-rune")
			}
		}
	}
	if p.OnlyCut < 0 && full.pan == nil {
		interleavedScanners(text, p.BufSize, full.toks, res)
	}
	// (5) ParseError.Pos of a failed parse is the reference position of the first byte of a token
	// of the independent tiling whose spelling matches Found
	if p.Parse && !nul && p.OnlyCut < 0 && full.pan == nil && full.probeOK {
		checkParseErrorPos(text, full, res)
	}
	res.AddExtra("truncated_scans", float64(evals))
	res.Nontrivial = len(full.toks) >= 3
	var tb strings.Builder
	for _, t := range full.toks {
		fmt.Fprintf(&tb, "%d:%d:%d:%d;", t.tok, t.pos.Line, t.pos.Char, t.end)
	}
	res.Trace = core.Hash64(tb.String())
	res.States = []uint64{res.Trace}
	return res
}

// posSig classifies a wrong token position. The classes that describe the defects recorded in
// known_findings.json are recognised by what the reported position IS (so that any other wrong
// position of the same token kind is still a separate, unlisted violation):
//   rune-before-quote: STRING/BADSTRING report the position of the rune before the opening quote
//   inside-token:      BADESCAPE reports a position inside the token (the offending escape)
//   EOF one column late
func posSig(text []byte, ref map[int]refPos, t lexTok) string {
	name := tokName(t.tok)
	at := func(off int) bool {
		w, ok := ref[off]
		return ok && w.line == t.pos.Line && w.col == t.pos.Char
	}
	prevStart := func(off int) int {
		for o := off - 1; o >= 0; o-- {
			if _, ok := ref[o]; ok {
				return o
			}
		}
		return -1
	}
	switch t.tok {
	case influxql.STRING, influxql.BADSTRING:
		for o := t.start; o < t.end && o < len(text); o++ {
			if text[o] == '\'' || text[o] == '"' {
				if ps := prevStart(o); ps >= 0 && at(ps) {
					return "pos:" + name + ":rune-before-quote"
				}
				break
			}
		}
	case influxql.BADESCAPE:
		// the recorded defect: the position reported is that of the character after the backslash
		// of the first invalid escape (exactly that one, so any other wrong position is new)
		for o := t.start; o+1 < t.end && o+1 < len(text); o++ {
			if text[o] != '\\' {
				continue
			}
			switch text[o+1] {
			case 'n', '\\', '"', '\'':
				o++ // a valid escape
				continue
			}
			if at(o + 1) {
				return "pos:" + name + ":inside-token"
			}
			break
		}
		if t.end <= len(text) && t.end > t.start && text[t.end-1] == '\\' && at(t.end) {
			return "pos:" + name + ":inside-token" // backslash as the last character of the input
		}
	}
	want := ref[t.start]
	return fmt.Sprintf("pos:%s:dline=%d,dcol=%s", name, t.pos.Line-want.line, colDelta(t.pos.Line-want.line, t.pos.Char-want.col))
}

func colDelta(dline, dcol int) string {
	if dline != 0 {
		return "*" // after a line mismatch the column is not comparable
	}
	return strconv.Itoa(dcol)
}

func tokName(t influxql.Token) string {
	switch t {
	case influxql.EOF:
		return "EOF"
	case influxql.WS:
		return "WS"
	case influxql.ILLEGAL:
		return "ILLEGAL"
	case influxql.COMMENT:
		return "COMMENT"
	case influxql.IDENT:
		return "IDENT"
	case influxql.BOUNDPARAM:
		return "BOUNDPARAM"
	case influxql.NUMBER:
		return "NUMBER"
	case influxql.INTEGER:
		return "INTEGER"
	case influxql.DURATIONVAL:
		return "DURATIONVAL"
	case influxql.STRING:
		return "STRING"
	case influxql.BADSTRING:
		return "BADSTRING"
	case influxql.BADESCAPE:
		return "BADESCAPE"
	case influxql.REGEX:
		return "REGEX"
	case influxql.BADREGEX:
		return "BADREGEX"
	}
	s := t.String()
	if s == "" {
		return fmt.Sprintf("tok%d", int(t))
	}
	if t.String() != "" && (s[0] >= 'A' && s[0] <= 'Z') {
		return "KEYWORD"
	}
	return "OP"
}

func tokList(ts []lexTok) string {
	var b strings.Builder
	for i, t := range ts {
		if i > 24 {
			b.WriteString(" …")
			break
		}
		fmt.Fprintf(&b, " %s[%d,%d)@%d:%d", tokName(t.tok), t.start, t.end, t.pos.Line, t.pos.Char)
	}
	return b.String()
}

func textProbes(t []byte, res *core.RunResult) {
	s := string(t)
	if strings.Contains(s, "\r\n") {
		res.Probe("crlf")
	}
	if i := strings.Index(s, "\r"); i >= 0 && (i+1 >= len(s) || s[i+1] != '\n') {
		res.Probe("lone-cr")
	}
	if strings.ContainsAny(s, "\r\n") {
		res.Probe("multi-line")
	}
	if !utf8.Valid(t) {
		res.Probe("invalid-utf8")
	}
	for _, c := range s {
		if c >= 0x80 && c != utf8.RuneError {
			res.Probe("multibyte")
			break
		}
	}
}

func checkParseErrorPos(text []byte, full *lexScan, res *core.RunResult) {
	verifhook.BeginOp(int64(c04BudgetA) + int64(c04BudgetB)*int64(len(text)))
	var err error
	// all three entry points quote positions; rotate over them by text
	entry := int(core.Hash64(string(text)) % 3)
	parse := func(t string) error {
		switch entry {
		case 1:
			_, e := influxql.ParseStatement(t)
			return e
		case 2:
			_, e := influxql.ParseExpr(t)
			return e
		}
		_, e := influxql.ParseQuery(t)
		return e
	}
	pan := core.Guard(func() { err = parse(string(text)) })
	res.Steps += verifhook.EndOp()
	if pan != nil || err == nil {
		return
	}
	pe, ok := err.(*influxql.ParseError)
	if !ok {
		return
	}
	res.Probe("parse-error-pos-checked")
	// an error value handed to the caller must not change when a later parse fails: parse a shifted
	// copy of the text and compare the first error with its snapshot
	snapPos, snapMsg := pe.Pos, pe.Error()
	verifhook.BeginOp(int64(c04BudgetA) + int64(c04BudgetB)*int64(len(text)+2))
	core.Guard(func() { _ = parse("\n " + string(text)) })
	res.Steps += verifhook.EndOp()
	if pe.Pos != snapPos || pe.Error() != snapMsg {
		res.Violate("parse-error-mutated-later", fmt.Sprintf("a ParseError returned earlier (%q) changed after a later failing parse: now %q\ntext=%s", snapMsg, pe.Error(), strconv.QuoteToASCII(string(text))))
		return
	}
	ref := positions(text)
	// byte offset of the reported position (inverse of the reference counter)
	off := -1
	for o, rp := range ref {
		if rp.line == pe.Pos.Line && rp.col == pe.Pos.Char && (off < 0 || o < off) {
			off = o
		}
	}
	end := ref[len(text)]
	kind := ""
	switch {
	case pe.Found == "EOF":
		// the parser's own tokenisation (regex context) may differ from Scanner.Scan, but EOF is EOF
		switch {
		case pe.Pos.Line == end.line && pe.Pos.Char == end.col:
			return
		case pe.Pos.Line == end.line && pe.Pos.Char == end.col+1:
			kind = "EOF-one-late"
		default:
			kind = "EOF"
		}
	case pe.Found != "":
		// the reported position must be where the spelling of the found token begins; a position
		// the scanner itself gave some token is judged by invariant 3, not here
		if off >= 0 && off <= len(text) {
			rest := string(text[off:])
			if strings.HasPrefix(strings.ToUpper(rest), strings.ToUpper(pe.Found)) {
				return
			}
		}
		for _, t := range full.toks {
			if t.pos == pe.Pos {
				return
			}
		}
		kind = "found"
		// the known STRING/BADSTRING defect (position of the rune before the quote) seen through a
		// parse error whose tokenisation (regex context) differs from Scanner.Scan
		if off >= 0 && off < len(text) {
			_, sz := utf8.DecodeRune(text[off:])
			if text[off] == '\r' && off+1 < len(text) && text[off+1] == '\n' {
				sz = 2
			}
			if nx := off + sz; nx < len(text) && (text[nx] == '\'' || text[nx] == '"') {
				kind = "rune-before-quote"
			}
		}
	default:
		// message-only errors (bad regex, unparsable number, duplicate option ...): the position must
		// at least be the first character of some character of the text that starts a token in the
		// scanner-only tiling, or a position the scanner gave a token; regex contexts are
		// tokenised differently by the parser, so a position on a '/' is accepted too
		if off >= 0 && off < len(text) && text[off] == '/' {
			return
		}
		for _, t := range full.toks {
			if want, ok := ref[t.start]; (ok && want.line == pe.Pos.Line && want.col == pe.Pos.Char) || t.pos == pe.Pos {
				return
			}
		}
		w := strings.Fields(pe.Message)
		if len(w) > 2 {
			w = w[:2]
		}
		kind = "message:" + strings.Join(w, "-")
	}
	res.Violate("parse-error-pos:"+kind, fmt.Sprintf("ParseError %q (found %q) reports line %d, char %d (zero-based); that is not where the token it names begins\ntokens (Scanner.Scan): %s\ntext=%s", pe.Error(), pe.Found, pe.Pos.Line, pe.Pos.Char, tokList(full.toks), strconv.QuoteToASCII(string(text))))
}

func (C05) Shrink(pi interface{}) []interface{} {
	p := pi.(*C05Plan)
	var out []interface{}
	cp := func() *C05Plan {
		q := &C05Plan{}
		b, _ := json.Marshal(p)
		_ = json.Unmarshal(b, q)
		return q
	}
	if p.Parse {
		q := cp()
		q.Parse = false
		out = append(out, q)
	}
	if len(p.Kinds) > 1 {
		for _, k := range p.Kinds {
			q := cp()
			q.Kinds = []string{k}
			out = append(out, q)
		}
	}
	if p.BufSize != 4096 {
		q := cp()
		q.BufSize = 4096
		out = append(out, q)
	}
	if len(p.Chunk) > 0 {
		q := cp()
		q.Chunk = nil
		out = append(out, q)
	}
	if p.OnlyCut < 0 {
		// first: is the whole text (no truncation) enough?
		q := cp()
		q.OnlyCut = len(p.Text)
		out = append(out, q)
		for k := 0; k < len(p.Text); k++ {
			q := cp()
			q.OnlyCut = k
			out = append(out, q)
		}
	} else if p.OnlyCut < len(p.Text) {
		q := cp()
		q.Text = q.Text[:p.OnlyCut]
		q.OnlyCut = len(q.Text)
		q.Show = strconv.QuoteToASCII(string(q.Text))
		out = append(out, q)
	}
	for _, t := range gen.ShrinkBytes(p.Text) {
		q := cp()
		q.Text = t
		q.Show = strconv.QuoteToASCII(string(t))
		if q.OnlyCut > len(t) {
			q.OnlyCut = len(t)
		}
		out = append(out, q)
	}
	return out
}
