package engines

import (
	"bytes"
	"encoding/json"
	"fmt"
	"strconv"
	"strings"
	"time"

	"github.com/influxdata/influxql"
	"github.com/influxdata/influxql/verifhook"

	"verifsim/core"
	"verifsim/gen"
	"verifsim/simstream"
)

// C04 — streamsim: the parser driven through a fault-injecting input stream (DESIGN.md §4 C04).

type Param struct {
	Name string `json:"name"`
	Kind string `json:"kind"` // string float int bool obj:<key>:<string|int|float> nil slice int32 uint nan
	Str  core.RawStr `json:"str,omitempty"`
}

type C04Plan struct {
	Text    []byte         `json:"text"`
	Show    string         `json:"show"` // printable copy of Text (for readers of replay files; not used)
	Entry   string         `json:"entry"` // query | statement | expr | statements
	Params  []Param        `json:"params,omitempty"`
	Stream  simstream.Plan `json:"stream"`
	BufSize int            `json:"buf_size"`
	// Session: further texts parsed afterwards in the same process through plain in-memory readers
	// (a server parses many queries; process-wide state left behind by one must not hurt the next)
	Session []core.RawStr `json:"session,omitempty"`
	// Doubling family: Unit repeated N and 2N times between Pre and Post (Text unused)
	Doubling bool   `json:"doubling,omitempty"`
	Pre      string `json:"pre,omitempty"`
	Unit     string `json:"unit,omitempty"`
	Mid      string `json:"mid,omitempty"`
	Unit2    string `json:"unit2,omitempty"`
	Post     string `json:"post,omitempty"`
	N        int    `json:"n,omitempty"`
}

type C04 struct{}

// Budget constants (DESIGN.md §4 C04 inv. 3a): fixed, set with >= 20x headroom over the worst
// steps/byte ratio measured on the pinned tree (reported as probe max_steps_per_byte_x100).
const (
	c04BudgetA = 20000
	c04BudgetB = 2500
)

func (C04) Meta() core.Meta {
	return core.Meta{
		Property: "C04", Engine: "streamsim", Level: "exploration",
		Rule: "A case = (byte string, entry point, parameter map, delivery schedule of the simulated stream: chunk sizes incl. zero reads, terminal fault kind and offset, optional non-contract faults, bufio size). The parser reads the bytes only through the simulated stream. Non-trivial = at least one stream fault other than a clean end fired (short read, zero read, injected error/EOF before the end, transient error, stall) or the run belongs to a doubling family. Distinct = distinct plan hash.",
		Assumptions: []string{
			"'time proportional to input length' is measured in simulated steps (library function entries) and stream Read calls, not seconds",
			"nesting depth is explored to 2*10^4 levels under Go's default 1 GB goroutine stack; deeper nesting is not claimed",
			"the quantifier over all byte strings and bindings is sampled by the workload generator",
			"non-contract stream behaviour (transient errors, EOF followed by more data, >=100 consecutive empty reads) is judged by the crash/termination oracle only",
		},
		Real:       []string{"influxql scanner, parser, printers, Walk, Clone (instrumented copy of the working tree)", "bufio.Reader, regexp, strconv, time.LoadLocation"},
		Stub:       []string{"input source (simstream.Stream)"},
		ProbeNames: []string{"cut-inside-token", "pushback-depth-2", "bufio-refill", "entry:query", "entry:statement", "entry:expr", "entry:statements", "params", "doubling", "accepted", "rejected", "noncontract", "truncation-compared", "delivery-compared", "deep-nesting", "session-parse"},
		FaultNames: []string{"short-read", "zero-read", "end:err", "end:unexpected-eof", "end:data+eof", "end:data+err", "transient", "eof-then-more", "stall"},
	}
}

func (C04) Runs(tier string) uint64 {
	if tier == "thorough" {
		return 2500000
	}
	return 200000
}

var specials = []string{"'", "\"", "/", "\\", "*", "$", "\r", "\n", "\x00", "\xff", "\xc3", "(", ")", ";", "--", "/*", "*/", "=~", "!~", "::", ".", ",", "+", "-", "1e", "µ", "€", "\\'", "\\\"", "\\n", "$p0", "$p1", " ", "\u0080", "\u00a0", "\u07ff", "\u0800", "\uffff", "\U00010000", "\U0010ffff", "\ufffd", "\u2028", "\u212a", "\u0130", "\u017f", "\xc2\x80", "\xed\xa0\x80", "\xf4\x90\x80\x80", "\xc0\x80"}

// Soup makes a token soup: every token spelling in every neighbourhood.
func Soup(r *core.Rand, n int) string {
	toks := []string{"SELECT", "FROM", "WHERE", "GROUP", "BY", "AND", "OR", "time", "*", "+", "-", "/", "%", "&", "|", "^", "=", "!=", "<>", "<", "<=", ">", ">=", "=~", "!~", "(", ")", ",", ";", ":", "::", ".", "..",
		"foo", "_x1", "\"quoted id\"", "\"a\\\"b\"", "'str'", "'it\\'s'", "'bad\\q'", "'unterminated", "\"unterminated", "123", "1.5", ".5", "1.", "10s", "1h30m", "5µ", "1u", "9223372036854775808", "$p0", "$", "$ x", "true", "false",
		"/re/", "/a\\/b/", "/unterminated", "/web(/", "/[/", "/a{2,1}/", "=~ /x(/", "=~ /ok/", "-- line comment\n", "/* block */", "/* unterminated", " ", "\t", "\n", "\r\n", "\r", "é", "日本", "\xff", "\x00", "DISTINCT", "AS", "INTO", "fill(", "TZ(", "ON", "LIMIT", "field", "tag", "INF", "EXPLAIN", "SHOW", "KEY", "IN", "WITH"}
	var b strings.Builder
	for i := 0; i < n; i++ {
		if r.Chance(1, 12) {
			// identifiers and strings of multi-byte runes of every small length, bare and quoted;
			// characters on UTF-8 encoding boundaries and with unusual case folding
			unit := r.Pick([]string{"é", "日", "\u0080", "\u212a", "\u0130", "\U00010000", "aé", "\u017f"})
			w := strings.Repeat(unit, r.Range(1, 24))
			b.WriteString(r.Pick([]string{w, "\"" + w + "\"", "'" + w + "'", "a.b.c.\"" + w + "\"", "\u212aEY", "SELECT \"" + w + "\" FROM \"" + w + "\""}))
			b.WriteByte(' ')
			continue
		}
		b.WriteString(toks[r.Intn(len(toks))])
		if r.Chance(1, 2) {
			b.WriteByte(' ')
		}
	}
	return b.String()
}

func mutateBytes(r *core.Rand, t []byte) []byte {
	for k := r.Range(1, 3); k > 0; k-- {
		if len(t) == 0 {
			return []byte(specials[r.Intn(len(specials))])
		}
		i := r.Intn(len(t))
		switch r.Intn(6) {
		case 0: // truncate
			t = t[:i]
		case 1: // duplicate a span
			j := i + r.Intn(len(t)-i+1)
			t = append(append(append([]byte{}, t[:j]...), t[i:j]...), t[j:]...)
		case 2: // flip a byte
			t = append([]byte{}, t...)
			t[i] ^= byte(1 << uint(r.Intn(8)))
		case 3, 4: // insert a special
			s := specials[r.Intn(len(specials))]
			t = append(append(append([]byte{}, t[:i]...), s...), t[i:]...)
		case 5: // delete a span
			j := i + r.Intn(min(len(t)-i, 6)+1)
			t = append(append([]byte{}, t[:i]...), t[j:]...)
		}
	}
	return t
}

func min(a, b int) int {
	if a < b {
		return a
	}
	return b
}

func genParams(r *core.Rand) []Param {
	n := r.Weighted([]int{5, 3, 2, 1, 1})
	var ps []Param
	strs := []string{"x", "select", "it's", "a;b", "'; DROP DATABASE x; --", "/* c */", "10s", "1e400", "", "日本", "\x00", "a\\", "/re/", "(?i)a", "[", "5", "true", "$p0", "\"q\"", "99999999999999999999d", "1ns", "1\xc2", "10m5\xc2", "\xc2", "1\xb5", "5µ", "1µs", "web(", "a{2,1}", "(?P<n", "1h\x00"}
	for i := 0; i < n; i++ {
		p := Param{Name: "p" + strconv.Itoa(r.Intn(3))}
		if r.Chance(1, 10) {
			p.Name = r.Pick([]string{"", " ", "select", "p 0"})
		}
		switch r.Intn(12) {
		case 0, 1:
			p.Kind, p.Str = "string", core.RawStr(r.Pick(strs))
		case 2:
			p.Kind, p.Str = "float", core.RawStr(r.Pick([]string{"1.5", "-2", "1e308", "0", "NaN", "+Inf", "-Inf", "1e-320"}))
		case 3:
			p.Kind, p.Str = "int", core.RawStr(r.Pick([]string{"0", "-1", "9223372036854775807", "-9223372036854775808", "42"}))
		case 4:
			p.Kind, p.Str = "bool", core.RawStr(r.Pick([]string{"true", "false"}))
		case 5:
			p.Kind, p.Str = "obj:"+r.Pick([]string{"regex", "ident", "identifier", "string", "duration"})+":string", core.RawStr(r.Pick(strs))
		case 6:
			p.Kind, p.Str = "obj:"+r.Pick([]string{"float", "number", "int", "integer", "duration", "regex"})+":int", core.RawStr(r.Pick([]string{"0", "-5", "9223372036854775807", "-9223372036854775808", "1000000000"}))
		case 7:
			p.Kind, p.Str = "obj:"+r.Pick([]string{"float", "number", "int", "bogus"})+":float", core.RawStr(r.Pick([]string{"1.5", "NaN", "-0"}))
		case 8:
			p.Kind = r.Pick([]string{"nil", "slice", "int32", "uint", "obj2", "obj0", "jsonnum", "jsonnum-bad"})
			p.Str = core.RawStr(r.Pick([]string{"12", "1.5", "abc", "1e999", "99999999999999999999"}))
		default:
			p.Kind, p.Str = "string", core.RawStr(r.Pick(strs))
		}
		ps = append(ps, p)
	}
	return ps
}

// targetedParams binds p0..p2 with values aimed at the positions templates use them in: durations,
// regexes, identifiers, numbers — each with hostile contents.
func targetedParams(r *core.Rand) []Param {
	hostile := []string{"1\xc2", "10m5\xc2", "\xc2", "5µ", "1µs", "1\xb5", "web(", "[", "a{2,1}", "(?P<n", "1h\x00", "", " ", "9999999999999999999999w", "-1h", "1e3s", "0", "'", "\"", "a.b", "select", "10s", "^a$", "UTC", "No/Such_Zone", "../../etc/passwd"}
	var ps []Param
	for i := 0; i < 3; i++ {
		if r.Chance(1, 6) {
			continue
		}
		p := Param{Name: "p" + strconv.Itoa(i)}
		switch r.Intn(8) {
		case 0, 1:
			p.Kind = "obj:duration:string"
		case 2:
			p.Kind = "obj:regex:string"
		case 3:
			p.Kind = "obj:ident:string"
		case 4:
			p.Kind = "obj:string:string"
		case 5:
			p.Kind = "string"
		case 6:
			p.Kind, p.Str = "obj:duration:int", core.RawStr(r.Pick([]string{"0", "-5", "9223372036854775807", "-9223372036854775808", "1000", "3600000000000"}))
			ps = append(ps, p)
			continue
		case 7:
			p.Kind, p.Str = "int", core.RawStr(r.Pick([]string{"0", "-1", "5", "9223372036854775807"}))
			ps = append(ps, p)
			continue
		}
		p.Str = core.RawStr(r.Pick(hostile))
		ps = append(ps, p)
	}
	return ps
}

func buildParams(ps []Param) map[string]interface{} {
	if len(ps) == 0 {
		return nil
	}
	m := map[string]interface{}{}
	for _, p := range ps {
		var v interface{}
		num := func(kind string) interface{} {
			switch kind {
			case "int":
				i, _ := strconv.ParseInt(string(p.Str), 10, 64)
				return i
			case "float":
				f, _ := strconv.ParseFloat(string(p.Str), 64)
				return f
			}
			return string(p.Str)
		}
		switch {
		case p.Kind == "string", p.Kind == "int", p.Kind == "float":
			v = num(p.Kind)
		case p.Kind == "bool":
			v = p.Str == "true"
		case strings.HasPrefix(p.Kind, "obj:"):
			parts := strings.Split(p.Kind, ":")
			v = map[string]interface{}{parts[1]: num(parts[2])}
		case p.Kind == "nil":
			v = nil
		case p.Kind == "slice":
			v = []interface{}{string(p.Str)}
		case p.Kind == "int32":
			v = int32(7)
		case p.Kind == "uint":
			v = uint64(7)
		case p.Kind == "obj2":
			v = map[string]interface{}{"string": "a", "regex": "b"}
		case p.Kind == "obj0":
			v = map[string]interface{}{}
		case p.Kind == "jsonnum", p.Kind == "jsonnum-bad":
			v = json.Number(string(p.Str))
		}
		m[p.Name] = v
	}
	return m
}

func paramBytes(ps []Param) int {
	n := 0
	for _, p := range ps {
		n += len(p.Name) + len(p.Str) + 8
	}
	return n
}

func genStreamPlan(r *core.Rand, text []byte, faultFree bool) simstream.Plan {
	sp := simstream.Plan{Cut: -1}
	switch r.Intn(7) {
	case 0:
		sp.Chunks = []int{1 << 20}
	case 1:
		sp.Chunks = []int{1}
	case 2:
		sp.Chunks = []int{r.Pick3(2, 3, 7)}
	case 3:
		sp.Chunks = []int{64}
	case 4:
		for k := r.Range(2, 6); k > 0; k-- {
			sp.Chunks = append(sp.Chunks, r.Range(0, 9))
		}
		nz := false
		for _, c := range sp.Chunks {
			if c > 0 {
				nz = true
			}
		}
		if !nz {
			sp.Chunks[0] = 1
		}
	case 5:
		sp.Chunks = []int{1, 0, 0, 3}
	case 6:
		// "split here": first chunk ends at an interesting boundary
		if i := interestingOffset(r, text); i > 0 {
			sp.Chunks = []int{i, 1, 1, 1 << 20}
		} else {
			sp.Chunks = []int{5}
		}
	}
	if faultFree {
		return sp
	}
	// terminal fault
	if r.Chance(3, 5) && len(text) > 0 {
		if r.Chance(1, 2) {
			sp.Cut = interestingOffset(r, text)
		} else {
			sp.Cut = r.Intn(len(text) + 1)
		}
		sp.CutKind = r.Pick([]string{"eof", "err", "unexpected-eof", "data+eof", "data+err"})
	} else if r.Chance(1, 3) {
		sp.CutKind = r.Pick([]string{"data+eof", "err", "data+err"})
	}
	// non-contract stratum: 1 in 8
	if r.Chance(1, 8) && len(text) > 0 {
		switch r.Intn(3) {
		case 0:
			sp.TransientAt = []int{r.Intn(len(text))}
		case 1:
			sp.EOFThenMore = []int{r.Intn(len(text))}
		case 2:
			sp.StallAt, sp.StallLen = r.Intn(len(text)), r.Pick3(5, 99, 150)
		}
	}
	if sp.StallLen == 0 && r.Chance(1, 12) && len(text) > 0 {
		sp.StallAt, sp.StallLen = r.Intn(len(text)), r.Range(1, 99)
	}
	return sp
}

// interestingOffset aims at places where look-ahead is in flight: inside strings, comments,
// regexes, numbers, duration units, $names, between CR and LF, after a backslash, inside a
// multi-byte rune, right after an identifier (call look-ahead) or an operator (regex look-ahead).
func interestingOffset(r *core.Rand, t []byte) int {
	var cands []int
	for i := 1; i < len(t); i++ {
		c, p := t[i], t[i-1]
		switch {
		case p == '\r' && c == '\n', p == '\\', p == '$', p == '*' && c == '/', p == '/' && c == '*', p == '-' && c == '-', p == '=' && c == '~', p == '!' && (c == '~' || c == '='),
			p == ':' && c == ':', p == '<' && (c == '=' || c == '>'), p == '>' && c == '=', c >= 0x80 && p >= 0x80, p == '\'' || p == '"' || p == '/',
			p >= '0' && p <= '9' && (c == '.' || (c >= 'a' && c <= 'z')), p == '.' && c >= '0' && c <= '9',
			(p >= 'a' && p <= 'z' || p >= 'A' && p <= 'Z') && (c == '(' || c == '.' || c == ':' || c == ' '), c == '(' || p == '(' || p == ',':
			cands = append(cands, i)
		}
	}
	if len(cands) == 0 {
		if len(t) == 0 {
			return 0
		}
		return r.Intn(len(t) + 1)
	}
	return cands[r.Intn(len(cands))]
}

var doublingUnits = [][5]string{
	// pre, unit, mid, unit2, post : text = pre + unit*n + mid + unit2*n + post
	{"SELECT ", "(", "f", ")", " FROM m"},
	{"SELECT f FROM m WHERE a = 1", " AND b = 2", "", "", ""},
	{"SELECT f FROM m WHERE a = 1", " OR b = 2 AND c = 3", "", "", ""},
	{"SELECT f0", ", f1", " FROM m", "", ""},
	{"SELECT f FROM m WHERE s = '", "xyz\\'", "'", "", ""},
	{"SELECT f FROM m ", "/* c */ ", "", "", ""},
	{"SELECT f FROM m ", "-- c\n", "", "", ""},
	{"", "SELECT f FROM m;", "", "", ""},
	{"SELECT f FROM m WHERE x = ", "-", "1", "", ""},
	{"SELECT ", "mean(", "f", ")", " FROM m"},
	{"SELECT f FROM ", "(SELECT f FROM ", "m", ")", ""},
	{"SELECT f FROM m WHERE t =~ /", "a|", "b/", "", ""},
	{"SELECT f FROM m WHERE x = 1", " + 1", "", "", ""},
	{"SELECT \"", "a\\\"", "\" FROM m", "", ""},
	{"SELECT f FROM m GROUP BY t0", ", t1", "", "", ""},
	{"", " ", "", "", ""},
	{"", "\r\n", "", "", ""},
	{"SELECT f FROM m WHERE x = 1", "1", "", "", ""},
	{"SELECT f FROM m WHERE x = 1h", "1h", "", "", ""},
	{"SELECT f FROM a", ".a", "", "", ""},
	{"SELECT f FROM m WHERE ", "((((", "a = 1", "))))", ""},
	{"SELECT f FROM m WHERE a = $", "p", "", "", ""},
	{"(", "(", "", ")", ")"},
	{"", "\xff", "", "", ""},
	{"SHOW TAG VALUES WITH KEY IN (a", ", b", ")", "", ""},
}

func (C04) NewPlan(r *core.Rand, tier string, i uint64) interface{} {
	p := &C04Plan{}
	p.BufSize = []int{16, 16, 17, 32, 64, 4096}[r.Intn(6)]
	p.Entry = []string{"query", "query", "statement", "expr", "statements"}[r.Intn(5)]
	// doubling families: 1 in 50 runs
	if r.Chance(1, 50) {
		u := doublingUnits[r.Intn(len(doublingUnits))]
		p.Doubling = true
		p.Pre, p.Unit, p.Mid, p.Unit2, p.Post = u[0], u[1], u[2], u[3], u[4]
		p.N = []int{50, 200, 1000, 4000}[r.Weighted([]int{4, 4, 2, 1})]
		if tier == "thorough" && r.Chance(1, 12) {
			p.N = 10000
		}
		p.Entry = "query"
		if strings.HasPrefix(p.Pre, "(") {
			p.Entry = "expr"
		}
		p.Stream = simstream.Plan{Cut: -1, Chunks: []int{r.Pick3(1, 64, 1<<20)}}
		return p
	}
	var t []byte
	o := gen.Opts{MaxDepth: r.Intn(3), Wild: r.Range(0, 8), Odd: r.Range(0, 8), Into: true, TimeCond: true, AllClauses: r.Chance(1, 3)}
	switch r.Weighted([]int{5, 6, 3, 1, 1}) {
	case 0:
		t = []byte(gen.Query(r, o))
	case 1:
		t = mutateBytes(r, []byte(gen.Query(r, o)))
	case 2:
		t = []byte(Soup(r, r.Range(1, 30)))
	case 3:
		// long / deep
		d := []int{100, 1000, 20000}[r.Weighted([]int{6, 3, 1})]
		switch r.Intn(6) {
		case 4:
			// one very long token: identifier, string, number, comment or regex beyond any buffer size
			long := strings.Repeat(r.Pick([]string{"a", "ab", "é", "9", "x1"}), d/2+2100)
			t = []byte(r.Pick([]string{"SELECT " + long + " FROM m", "SELECT f FROM m WHERE s = '" + long + "'", "SELECT f FROM \"" + long + "\"", "SELECT f FROM m /* " + long + " */ WHERE x = 1", "SELECT f FROM m WHERE t =~ /" + long + "/", "SELECT f FROM m -- " + long, "SELECT " + strings.Repeat("9", d/2+2100) + " FROM m"}))
		case 5:
			// a text whose length sits exactly on common buffer sizes
			base := "SELECT f FROM m WHERE s = '"
			for _, sz := range []int{4096, 4095, 4097, 8192}[r.Intn(4):][:1] {
				t = []byte(base + strings.Repeat("z", sz-len(base)-1) + "'")
			}
			p.BufSize = 4096
		case 0:
			t = []byte("SELECT " + strings.Repeat("(", d) + "f" + strings.Repeat(")", d) + " FROM m")
			p.Stream.Chunks = []int{1 << 20}
		case 1:
			t = []byte("SELECT f FROM m WHERE " + strings.Repeat("(", d) + "a = 1")
		case 2:
			t = []byte("SELECT f FROM m WHERE a = " + strings.Repeat("-", d) + "1")
		case 3:
			t = []byte(strings.Repeat("SELECT f FROM (", d/10) + "m")
		}
	case 4:
		// a template with parameter references in every position
		t = []byte(r.Pick([]string{
			"SELECT $p0 FROM $p1 WHERE $p2 = $p0", "SELECT f FROM m WHERE t =~ $p0", "SELECT f FROM m WHERE time > now() - $p0 GROUP BY time($p1)",
			"SELECT f FROM m LIMIT $p0", "SELECT mean($p0) FROM m", "SELECT f FROM m WHERE x = $p0 AND y = $p1 AND z = $p2", "SELECT f FROM $p0.$p1.$p2", "SELECT /$p0/ FROM m", "SELECT f FROM m WHERE a = $ AND b = $p9",
			"CREATE USER $p0 WITH PASSWORD $p1", "SELECT f FROM m WHERE t !~ $p1 OR s = '$p0'", "SELECT f, $p0::float FROM m", "SELECT f FROM m fill($p0)", "SELECT f FROM m TZ($p0)",
		}))
		if r.Chance(1, 3) {
			t = mutateBytes(r, t)
		}
		p.Params = targetedParams(r)
	}
	p.Text = t
	if p.Params == nil && (r.Chance(2, 5) || bytes.Contains(t, []byte("$"))) {
		p.Params = genParams(r)
	}
	if p.Stream.Chunks == nil {
		p.Stream = genStreamPlan(r, t, r.Chance(1, 4))
	}
	p.Show = strconv.QuoteToASCII(string(t))
	if r.Chance(1, 5) {
		for k := r.Range(1, 3); k > 0; k-- {
			switch r.Intn(4) {
			case 0:
				p.Session = append(p.Session, core.RawStr("SELECT f FROM m WHERE t =~ "+r.Pick([]string{"/web(/", "/ok/", "/[/", "/a|b/", "/^x$/"})))
			case 1:
				p.Session = append(p.Session, core.RawStr(Soup(r, r.Range(2, 12))))
			case 2:
				p.Session = append(p.Session, core.RawStr("SELECT f FROM m TZ('"+r.Pick([]string{"Mars/Olympus_Mons", "UTC", "America/New_York", "", "No/Such"})+"')"))
			default:
				p.Session = append(p.Session, core.RawStr(gen.Query(r, o)))
			}
		}
	}
	return p
}

func (C04) Decode(b []byte) (interface{}, error) {
	p := &C04Plan{}
	return p, json.Unmarshal(b, p)
}

type parseOutcome struct {
	fp      string // AST fingerprint(s) or error text
	okay    bool   // nil error
	pan     *core.PanicInfo
	steps   int64
	shape   string // non-empty: result-shape breach
	results []interface{}
	overflow int
}

// parseVia parses text through the given reader with the given entry point.
func parseVia(rd interface{ Read([]byte) (int, error) }, entry string, params map[string]interface{}, budget int64) *parseOutcome {
	out := &parseOutcome{}
	verifhook.PushbackOverflows()
	verifhook.BeginOp(budget)
	out.pan = core.Guard(func() {
		p := influxql.NewParser(rd)
		if params != nil {
			p.SetParams(params)
		}
		switch entry {
		case "query":
			q, err := p.ParseQuery()
			switch {
			case err != nil:
				out.fp = "error: " + err.Error()
				if q != nil {
					// a partial result next to an error is allowed; it is not inspected
				}
			case q == nil:
				out.shape = "ParseQuery returned (nil, nil)"
			default:
				out.okay = true
				for i, s := range q.Statements {
					if s == nil || isNilIface(s) {
						out.shape = fmt.Sprintf("ParseQuery returned nil error and a nil statement at index %d", i)
					}
				}
				out.results = append(out.results, q)
				out.fp = core.FP(q)
			}
		case "statement":
			s, err := p.ParseStatement()
			switch {
			case err != nil:
				out.fp = "error: " + err.Error()
			case s == nil || isNilIface(s):
				out.shape = "ParseStatement returned (nil, nil)"
			default:
				out.okay = true
				out.results = append(out.results, s)
				out.fp = core.FP(s)
			}
		case "expr":
			e, err := p.ParseExpr()
			switch {
			case err != nil:
				out.fp = "error: " + err.Error()
			case e == nil || isNilIface(e):
				out.shape = "ParseExpr returned (nil, nil)"
			default:
				out.okay = true
				out.results = append(out.results, e)
				out.fp = core.FP(e)
			}
		case "statements":
			// repeated Parser.ParseStatement on one stream, as a server reading a session does
			var sb strings.Builder
			for k := 0; k < 8; k++ {
				s, err := p.ParseStatement()
				if err != nil {
					sb.WriteString("error: " + err.Error() + "\n")
					break
				}
				if s == nil || isNilIface(s) {
					out.shape = "ParseStatement returned (nil, nil)"
					break
				}
				out.okay = true
				out.results = append(out.results, s)
				sb.WriteString(core.FP(s) + "\n")
				if tok, _, _ := p.ScanIgnoreWhitespace(); tok != influxql.SEMICOLON {
					sb.WriteString("stop: " + tok.String())
					break
				}
			}
			out.fp = sb.String()
		}
	})
	out.steps = verifhook.EndOp()
	out.overflow = verifhook.PushbackOverflows()
	return out
}

func isNilIface(v interface{}) bool {
	switch x := v.(type) {
	case *influxql.SelectStatement:
		return x == nil
	case *influxql.Query:
		return x == nil
	}
	return false
}

// useResult prints and traverses a parse result under the panic guard and a step budget.
func useResult(v interface{}, budget int64) (*core.PanicInfo, int64) {
	verifhook.BeginOp(budget)
	pi := core.Guard(func() {
		switch x := v.(type) {
		case *influxql.Query:
			_ = x.String()
			influxql.WalkFunc(x, func(influxql.Node) {})
			for _, s := range x.Statements {
				if sel, ok := s.(*influxql.SelectStatement); ok {
					_ = sel.Clone().String()
				}
			}
		case influxql.Statement:
			_ = x.String()
			influxql.WalkFunc(x, func(influxql.Node) {})
			if sel, ok := x.(*influxql.SelectStatement); ok {
				_ = sel.Clone().String()
			}
		case influxql.Expr:
			_ = x.String()
			influxql.WalkFunc(x, func(influxql.Node) {})
			_ = influxql.CloneExpr(x)
		}
	})
	return pi, verifhook.EndOp()
}

func (C04) Exec(pi interface{}) *core.RunResult {
	p := pi.(*C04Plan)
	res := &core.RunResult{}
	if p.Doubling {
		return execDoubling(p, res)
	}
	text := p.Text
	params := buildParams(p.Params)
	size := int64(len(text) + paramBytes(p.Params))
	budget := int64(c04BudgetA) + int64(c04BudgetB)*size
	if p.BufSize < 16 {
		p.BufSize = 4096
	}
	verifhook.SetBufSize(p.BufSize)
	defer verifhook.SetBufSize(4096)

	st := simstream.New(text, p.Stream)
	verifhook.ResetPushbackMax()
	out := parseVia(st, p.Entry, params, budget)
	res.Steps += out.steps
	res.Probe("entry:" + p.Entry)
	if len(p.Params) > 0 {
		res.Probe("params")
	}
	for k, v := range st.Fired {
		if k == "end:eof" {
			continue
		}
		for i := 0; i < v; i++ {
			res.Fault(k)
		}
	}
	if size > 0 {
		ratio := int(out.steps * 100 / size)
		if res.Probes == nil {
			res.Probes = map[string]int{}
		}
		_ = ratio
	}
	ctx := func() string {
		sp, _ := json.Marshal(p.Stream)
		return fmt.Sprintf("entry=%s buf=%d params=%d stream=%s\ntext=%s", p.Entry, p.BufSize, len(p.Params), sp, strconv.QuoteToASCII(string(text)))
	}
	// 1. no panic / 3a. budget
	if out.pan != nil {
		if out.pan.Class == "budget" {
			res.Violate("budget:parse:"+p.Entry, fmt.Sprintf("parsing did not finish within %d steps for %d input bytes (budget %d + %d per byte)\n%s", budget, size, c04BudgetA, c04BudgetB, ctx()))
		} else {
			res.Violate(out.pan.Sig(), fmt.Sprintf("parser panicked: %s\nstack: %v\n%s", out.pan.Msg, out.pan.Stack, ctx()))
		}
	}
	// reads bound: a conforming consumer does not poll a dead stream
	maxReads := 2*len(text) + 200 + st.ZeroReads + 4*len(p.Stream.Chunks)
	if st.Reads > maxReads+int(out.steps) {
		res.Violate("reads-unbounded", fmt.Sprintf("%d Read calls for %d bytes\n%s", st.Reads, len(text), ctx()))
	}
	// 2. result shape
	if out.shape != "" {
		res.Violate("result-shape:"+p.Entry, out.shape+"\n"+ctx())
	}
	// 4. pushback rings
	if out.overflow > 0 {
		res.Violate("pushback-overflow", fmt.Sprintf("a pushback ring was pushed beyond its capacity %d time(s): %+v\n%s", out.overflow, verifhook.PushbackStats(), ctx()))
	}
	// printing and traversal of whatever was returned
	if out.pan == nil {
		if out.okay {
			res.Probe("accepted")
		} else {
			res.Probe("rejected")
		}
		for _, v := range out.results {
			pan, steps := useResult(v, 4*budget)
			res.Steps += steps
			if pan != nil {
				if pan.Class == "budget" {
					res.Violate("budget:use-result", "printing/traversing the result exceeded its step budget\n"+ctx())
				} else {
					res.Violate("use-result:"+pan.Sig(), fmt.Sprintf("printing/traversing a returned result panicked: %s\nstack: %v\n%s", pan.Msg, pan.Stack, ctx()))
				}
			}
		}
	}
	// 5. delivery-schedule independence / truncation semantics (contract schedules only)
	delivered := st.Delivered
	nontrivialFault := false
	for k := range st.Fired {
		if k != "end:eof" {
			nontrivialFault = true
		}
	}
	if p.Stream.Contract() && out.pan == nil && len(res.Violations) == 0 {
		eff := text
		if p.Stream.Cut >= 0 && p.Stream.Cut < len(text) {
			eff = text[:p.Stream.Cut]
			res.Probe("truncation-compared")
		} else {
			res.Probe("delivery-compared")
		}
		verifhook.SetBufSize(4096)
		ref := parseVia(bytes.NewReader(eff), p.Entry, params, budget)
		res.Steps += ref.steps
		if ref.pan == nil && ref.fp != out.fp {
			res.Violate("delivery-dependence", fmt.Sprintf("the outcome depends on how the same %d bytes were delivered: through the simulated stream:\n  %s\nthrough one whole in-memory read:\n  %s\n%s", len(eff), clip(out.fp), clip(ref.fp), ctx()))
		}
	} else if !p.Stream.Contract() {
		res.Probe("noncontract")
	}
	_ = delivered
	// session: later parses in the same process
	for si, extraR := range p.Session {
		extra := string(extraR)
		b2 := int64(c04BudgetA) + int64(c04BudgetB)*int64(len(extra)+paramBytes(p.Params))
		verifhook.SetBufSize(4096)
		o2 := parseVia(strings.NewReader(extra), "query", params, b2)
		res.Steps += o2.steps
		res.Probe("session-parse")
		if o2.pan != nil {
			if o2.pan.Class == "budget" {
				res.Violate("budget:session", fmt.Sprintf("parse %d of a session (after the texts before it) did not finish within %d steps for %d bytes\nsession text=%s\n%s", si+2, b2, len(extra), strconv.QuoteToASCII(extra), ctx()))
			} else {
				res.Violate(o2.pan.Sig(), fmt.Sprintf("parser panicked on parse %d of a session: %s\nstack: %v\nsession text=%s\n%s", si+2, o2.pan.Msg, o2.pan.Stack, strconv.QuoteToASCII(extra), ctx()))
			}
		}
		if o2.shape != "" {
			res.Violate("result-shape:query", o2.shape+"\nsession text="+strconv.QuoteToASCII(extra))
		}
		for _, v := range o2.results {
			if pan, st2 := useResult(v, 4*b2); pan != nil {
				res.Steps += st2
				res.Violate("use-result:"+pan.Sig(), fmt.Sprintf("printing/traversing a result of a session parse panicked: %s\nsession text=%s", pan.Msg, strconv.QuoteToASCII(extra)))
			}
		}
	}
	if p.Stream.Cut > 0 && p.Stream.Cut < len(text) {
		res.Probe("cut-inside-token")
	}
	for _, s := range verifhook.PushbackStats() {
		if s.Max >= 2 {
			res.Probe("pushback-depth-2")
			break
		}
	}
	if len(text) > p.BufSize {
		res.Probe("bufio-refill")
	}
	if bytes.Count(text, []byte("(")) > 500 {
		res.Probe("deep-nesting")
	}
	res.Nontrivial = nontrivialFault
	res.Trace = core.Hash64(out.fp + fmt.Sprint(out.pan != nil, st.Reads))
	if size > 0 {
		res.AddExtra("bytes", float64(size))
		r100 := float64(out.steps) / float64(size)
		if r100 > 0 {
			res.AddExtra("_max_steps_per_byte", 0) // placeholder so the key exists
		}
		res.States = append(res.States, core.Hash64(shapeOf(out.fp)))
		// max ratio is tracked through a probe-like extreme: encode as integer percent in Probes via max
		maxProbe(res, "max_steps_per_byte_x100", int(r100*100), len(text))
	}
	return res
}

// maxProbe records an extreme: the runner adds probes, so extremes are carried as one-hot buckets.
func maxProbe(res *core.RunResult, name string, v int, n int) {
	if n < 8 {
		return // tiny inputs are dominated by the constant term
	}
	b := 0
	for x := v; x > 0; x >>= 1 {
		b++
	}
	res.Probe(fmt.Sprintf("%s<2^%d", name, b))
}

func shapeOf(fp string) string {
	if strings.HasPrefix(fp, "error: ") {
		// error class without positions/literals
		s := fp
		if i := strings.Index(s, " at line"); i > 0 {
			s = s[:i]
		}
		return s
	}
	var b strings.Builder
	for _, l := range strings.Split(fp, "\n") {
		if i := strings.Index(l, "=struct "); i >= 0 {
			b.WriteString(l[i+8:] + ";")
		}
	}
	return b.String()
}

func clip(s string) string {
	s = strings.ReplaceAll(s, "\n", " | ")
	if len(s) > 400 {
		return s[:400] + "…"
	}
	return s
}

func execDoubling(p *C04Plan, res *core.RunResult) *core.RunResult {
	res.Probe("doubling")
	res.Nontrivial = true
	mk := func(n int) []byte {
		return []byte(p.Pre + strings.Repeat(p.Unit, n) + p.Mid + strings.Repeat(p.Unit2, n) + p.Post)
	}
	verifhook.SetBufSize(4096)
	run := func(n int) (int64, *parseOutcome, int) {
		t := mk(n)
		st := simstream.New(t, p.Stream)
		out := parseVia(st, p.Entry, nil, int64(c04BudgetA)+int64(c04BudgetB)*int64(len(t)))
		steps := out.steps
		for _, v := range out.results {
			pan, s2 := useResult(v, 8*(int64(c04BudgetA)+int64(c04BudgetB)*int64(len(t))))
			steps += s2
			if pan != nil && out.pan == nil {
				out.pan = pan
			}
		}
		return steps, out, len(t)
	}
	s1, o1, l1 := run(p.N)
	s2, o2, l2 := run(2 * p.N)
	res.Steps = s1 + s2
	ctx := fmt.Sprintf("family: %q + %q*n + %q + %q*n + %q, n=%d (%d bytes) and 2n (%d bytes), entry=%s", p.Pre, p.Unit, p.Mid, p.Unit2, p.Post, p.N, l1, l2, p.Entry)
	for _, o := range []*parseOutcome{o1, o2} {
		if o.pan != nil {
			if o.pan.Class == "budget" {
				res.Violate("budget:doubling", "step budget exceeded in a doubling family\n"+ctx)
			} else {
				res.Violate(o.pan.Sig(), fmt.Sprintf("panic in a doubling family: %s\nstack: %v\n%s", o.pan.Msg, o.pan.Stack, ctx))
			}
			return res
		}
	}
	if s2 > 3*s1+int64(c04BudgetA) {
		res.Violate("superlinear", fmt.Sprintf("steps grew from %d to %d (x%.2f) when the input doubled: more than linear\n%s", s1, s2, float64(s2)/float64(s1), ctx))
	}
	res.Trace = core.Hash64(fmt.Sprint(s1, s2, o1.fp == "", o2.okay))
	return res
}

func (C04) Shrink(pi interface{}) []interface{} {
	p := pi.(*C04Plan)
	var out []interface{}
	cp := func() *C04Plan {
		q := &C04Plan{}
		b, _ := json.Marshal(p)
		_ = json.Unmarshal(b, q)
		return q
	}
	if p.Doubling {
		if p.N > 8 {
			q := cp()
			q.N = p.N / 2
			out = append(out, q)
		}
		return out
	}
	fix := func(q *C04Plan) *C04Plan {
		q.Show = strconv.QuoteToASCII(string(q.Text))
		if q.Stream.Cut > len(q.Text) {
			q.Stream.Cut = len(q.Text)
		}
		return q
	}
	for i := range p.Session {
		q := cp()
		q.Session = append(q.Session[:i:i], q.Session[i+1:]...)
		out = append(out, q)
	}
	for i, st := range p.Session {
		for k, t := range gen.ShrinkText(string(st)) {
			if k > 40 {
				break
			}
			q := cp()
			q.Session[i] = core.RawStr(t)
			out = append(out, q)
		}
	}
	if len(p.Params) > 0 {
		q := cp()
		q.Params = nil
		out = append(out, q)
		for i := range p.Params {
			q := cp()
			q.Params = append(q.Params[:i:i], q.Params[i+1:]...)
			out = append(out, q)
		}
	}
	// simplify the stream: one chunk + the one fault
	if len(p.Stream.TransientAt)+len(p.Stream.EOFThenMore) > 0 || p.Stream.StallLen > 0 {
		q := cp()
		q.Stream.TransientAt, q.Stream.EOFThenMore, q.Stream.StallAt, q.Stream.StallLen = nil, nil, 0, 0
		out = append(out, q)
	}
	if p.Stream.Cut >= 0 {
		// replace "cut at k" by the truncated text with a clean end
		q := cp()
		if p.Stream.Cut < len(q.Text) {
			q.Text = q.Text[:p.Stream.Cut]
		}
		q.Stream.Cut, q.Stream.CutKind = -1, ""
		out = append(out, fix(q))
	}
	if p.Stream.CutKind != "" && p.Stream.CutKind != "eof" {
		q := cp()
		q.Stream.CutKind = "eof"
		out = append(out, q)
	}
	if len(p.Stream.Chunks) != 1 || p.Stream.Chunks[0] != 1<<20 {
		q := cp()
		q.Stream.Chunks = []int{1 << 20}
		out = append(out, q)
		if len(p.Stream.Chunks) > 1 {
			q := cp()
			q.Stream.Chunks = []int{1}
			out = append(out, q)
		}
	}
	if p.BufSize != 4096 {
		q := cp()
		q.BufSize = 4096
		out = append(out, q)
	}
	if p.Entry == "statements" || p.Entry == "query" {
		q := cp()
		q.Entry = "statement"
		out = append(out, q)
	}
	for _, t := range gen.ShrinkText(string(p.Text)) {
		q := cp()
		q.Text = []byte(t)
		out = append(out, fix(q))
	}
	for _, t := range gen.ShrinkBytes(p.Text) {
		q := cp()
		q.Text = t
		out = append(out, fix(q))
	}
	return out
}

var _ = time.Second
