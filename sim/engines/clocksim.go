package engines

import (
	"container/heap"
	"encoding/json"
	"fmt"
	"regexp"
	"strconv"
	"strings"
	"time"

	"github.com/influxdata/influxql"
	"github.com/influxdata/influxql/verifhook"

	"verifsim/core"
)

// C18 — clocksim: a stand-in continuous-query service on a simulated clock calls SetTimeRange on
// one cached statement, window after window, under clock faults (DESIGN.md §4 C18).

// CondNode is the generator's own condition tree (the "intent metadata"): what the non-time part
// means is evaluated on THIS tree, never by the package.
type CondNode struct {
	Kind string      `json:"k"`           // and | or | paren | time | tag | field | bool
	Kids []*CondNode `json:"c,omitempty"` // and/or/paren
	Text string      `json:"t,omitempty"` // leaf text as written
	// tag/field leaves
	Name string  `json:"n,omitempty"`
	Op   string  `json:"o,omitempty"`
	Str  string  `json:"s,omitempty"`
	Num  float64 `json:"f,omitempty"`
	Val  bool    `json:"b,omitempty"`
}

func (n *CondNode) render(b *strings.Builder) {
	switch n.Kind {
	case "and", "or":
		for i, k := range n.Kids {
			if i > 0 {
				b.WriteString(" " + strings.ToUpper(n.Kind) + " ")
			}
			k.render(b)
		}
	case "paren":
		b.WriteString("(")
		n.Kids[0].render(b)
		b.WriteString(")")
	default:
		b.WriteString(n.Text)
	}
}

// Point is a data point for evaluating selections.
type Point struct {
	Tags   map[string]string
	Fields map[string]float64
	T      int64
}

// evalNonTime evaluates the non-time part: time leaves count as true.
func (n *CondNode) evalNonTime(p *Point) bool {
	switch n.Kind {
	case "and":
		for _, k := range n.Kids {
			if !k.evalNonTime(p) {
				return false
			}
		}
		return true
	case "or":
		for _, k := range n.Kids {
			if k.evalNonTime(p) {
				return true
			}
		}
		return false
	case "paren":
		return n.Kids[0].evalNonTime(p)
	case "time":
		return true
	case "bool":
		return n.Val
	case "opaque":
		return false // a field compared with a duration: never true for numeric fields
	case "tag":
		v := p.Tags[n.Name]
		switch n.Op {
		case "=":
			return v == n.Str
		case "!=", "<>":
			return v != n.Str
		case "=~":
			return regexp.MustCompile(n.Str).MatchString(v)
		case "!~":
			return !regexp.MustCompile(n.Str).MatchString(v)
		}
	case "field":
		v := p.Fields[n.Name]
		switch n.Op {
		case "=":
			return v == n.Num
		case "!=":
			return v != n.Num
		case "<":
			return v < n.Num
		case "<=":
			return v <= n.Num
		case ">":
			return v > n.Num
		case ">=":
			return v >= n.Num
		}
	}
	return false
}

type ClockEvent struct {
	At   int64  `json:"at"`   // simulated nanoseconds after start
	Kind string `json:"kind"` // jump-forward | jump-backward | duplicate | zero-length | zone | extreme
	Arg  int64  `json:"arg"`
}

type C18Plan struct {
	Cond      *CondNode    `json:"cond"` // nil: statement without WHERE
	CondText  string       `json:"cond_text"`
	OldBounds []int64      `json:"old_bounds"` // instants written in the initial bounds (for boundary points)
	Interval  int64        `json:"interval_ns"`
	Offset    int64        `json:"offset_ns"`
	Every     int64        `json:"every_ns"`
	For       int64        `json:"for_ns"`
	Zone      string       `json:"zone"`
	Start     int64        `json:"start_ns"`
	Windows   int          `json:"windows"`
	CatchUp   bool         `json:"catch_up"`
	Events    []ClockEvent `json:"events"`
}

type C18 struct{}

func (C18) Meta() core.Meta {
	return core.Meta{
		Property: "C18", Engine: "clocksim", Level: "exploration",
		Rule: "A case = (initial WHERE condition generated with intent metadata: tag/field predicates under AND/OR/parentheses conjoined with 0..4 time bounds in every written form; a continuous-query runner: interval, offset, RESAMPLE EVERY/FOR, zone; a start instant; a schedule of clock faults). A discrete-event loop on a simulated clock fires ticks; each tick computes its window and calls SetTimeRange on the SAME statement; after EVERY call the statement's selection, evaluated by an independent evaluator over the AST now in Condition, must equal nonTime(point) AND start <= t < end on all boundary points (1 ns around every bound ever written x every combination of predicate-relevant tag/field values); the condition must not grow; the call must return nil. Non-trivial = at least 2 windows applied and (an initial time bound or a clock fault). Distinct = distinct plan hash.",
		Assumptions: []string{
			"the continuous-query service is a stub: window arithmetic (truncate to interval, offset, RESAMPLE EVERY/FOR) and the SetTimeRange call only",
			"the observed selection is computed by the harness's own evaluator over the AST (not by ConditionExpr/EvalBool), so a defect in the C10 code cannot raise or mask a C18 alarm",
			"initial conditions follow the property's quantifier: time bounds are joined by AND (possibly inside parenthesised AND groups); OR occurs among non-time predicates only",
		},
		Real:       []string{"influxql parser, SetTimeRange, rewriteWithoutTimeDimensions, Reduce, printers (instrumented copy of the working tree)"},
		Stub:       []string{"continuous-query service and its clock (clocksim)", "data points (generated)"},
		ProbeNames: []string{"initial-time-bound", "time-on-right", "upper-case-time", "now-relative", "top-level-or", "no-where", "windows>=10", "catch-up-burst", "sub-second-window", "non-utc-window", "window-before-previous", "pre-epoch-window", "cond-form:string", "cond-form:integer", "cond-form:duration"},
		FaultNames: []string{"jump-forward", "jump-backward", "duplicate", "zero-length", "zone", "extreme"},
	}
}

func (C18) Runs(tier string) uint64 {
	if tier == "thorough" {
		return 2000000
	}
	return 120000
}

var c18Tags = map[string][]string{"host": {"a", "b"}, "region": {"us", "eu"}}
var c18Fields = map[string][]float64{"value": {1, 7}, "n": {3, 4}}

func genNonTimeLeaf(r *core.Rand) *CondNode {
	switch r.Intn(7) {
	case 0, 1:
		n := &CondNode{Kind: "tag", Name: r.Pick([]string{"host", "region"}), Op: r.Pick([]string{"=", "!=", "<>"})}
		n.Str = r.Pick(c18Tags[n.Name])
		n.Text = fmt.Sprintf("%s %s '%s'", n.Name, n.Op, n.Str)
		return n
	case 2:
		n := &CondNode{Kind: "tag", Name: r.Pick([]string{"host", "region"}), Op: r.Pick([]string{"=~", "!~"})}
		n.Str = r.Pick([]string{"^a", "^(us|eu)$", "u", "^b$", "x"})
		n.Text = fmt.Sprintf("%s %s /%s/", n.Name, n.Op, n.Str)
		return n
	case 3, 4, 5:
		n := &CondNode{Kind: "field", Name: r.Pick([]string{"value", "n"}), Op: r.Pick([]string{"=", "!=", "<", "<=", ">", ">="})}
		n.Num = []float64{1, 3, 3.5, 4, 5, 7}[r.Intn(6)]
		n.Text = fmt.Sprintf("%s %s %s", n.Name, n.Op, strconv.FormatFloat(n.Num, 'f', -1, 64))
		return n
	default:
		v := r.Chance(2, 3)
		return &CondNode{Kind: "bool", Val: v, Text: strconv.FormatBool(v)}
	}
}

func genNonTime(r *core.Rand, depth int) *CondNode {
	if depth >= 2 || r.Chance(1, 2) {
		return genNonTimeLeaf(r)
	}
	k := r.Pick([]string{"and", "or", "or"})
	n := &CondNode{Kind: k}
	for c := r.Range(2, 3); c > 0; c-- {
		kid := genNonTime(r, depth+1)
		// keep precedence explicit: an OR inside an AND (and vice versa) is parenthesised
		if (kid.Kind == "or" || kid.Kind == "and") && kid.Kind != k {
			kid = &CondNode{Kind: "paren", Kids: []*CondNode{kid}}
		} else if (kid.Kind == "or" || kid.Kind == "and") && r.Chance(1, 2) {
			kid = &CondNode{Kind: "paren", Kids: []*CondNode{kid}}
		}
		n.Kids = append(n.Kids, kid)
	}
	return n
}

func genTimeLeaf(r *core.Rand, res *[]int64, start int64) *CondNode {
	inst := []int64{946684800000000000, 946688400000000000, 1000000000, 1700000000000000000, start, start - 3600e9, start + 7200e9, 0}[r.Intn(8)]
	var lit string
	switch r.Intn(7) {
	case 0:
		lit = "'" + time.Unix(0, inst).UTC().Format(time.RFC3339Nano) + "'"
	case 1:
		inst = inst / 86400e9 * 86400e9
		lit = "'" + time.Unix(0, inst).UTC().Format("2006-01-02") + "'"
	case 2:
		inst = inst / 1e9 * 1e9
		lit = "'" + time.Unix(0, inst).UTC().Format("2006-01-02 15:04:05") + "'"
	case 3:
		lit = strconv.FormatInt(inst, 10)
	case 4:
		inst = inst / 1e9 * 1e9
		if inst < 0 {
			inst = 0
		}
		lit = strconv.FormatInt(inst/1e9, 10) + "s"
	case 5:
		d := []string{"1h", "10m", "30s", "1d"}[r.Intn(4)]
		lit = "now() " + r.Pick([]string{"-", "+"}) + " " + d
		inst = start // approximate; only used for boundary points
	case 6:
		lit = "now()"
		inst = start
	}
	*res = append(*res, inst)
	op := r.Pick([]string{"<", "<=", ">", ">=", "=", ">", "<"})
	tname := r.Pick([]string{"time", "time", "time", "TIME", "Time"})
	text := tname + " " + op + " " + lit
	if r.Chance(1, 3) {
		text = lit + " " + op + " " + tname
	}
	return &CondNode{Kind: "time", Text: text}
}

func genCond(r *core.Rand, start int64) (*CondNode, []int64) {
	var bounds []int64
	if r.Chance(1, 12) {
		return nil, nil
	}
	nTime := r.Weighted([]int{3, 4, 4, 2, 1})
	var parts []*CondNode
	nNon := r.Weighted([]int{1, 4, 3, 1})
	long := r.Chance(1, 40)
	if long {
		// a long conjunction (depth thresholds in whatever strips the old bounds)
		nNon = r.Range(60, 110)
	}
	for i := 0; i < nNon; i++ {
		k := genNonTime(r, 0)
		if long {
			k = genNonTimeLeaf(r)
		}
		if k.Kind == "or" && (nNon+nTime > 1) {
			// an OR group conjoined with anything else is parenthesised (top-level bare OR only when alone)
			k = &CondNode{Kind: "paren", Kids: []*CondNode{k}}
		}
		parts = append(parts, k)
	}
	for i := 0; i < nTime; i++ {
		parts = append(parts, genTimeLeaf(r, &bounds, start))
	}
	if r.Chance(1, 25) {
		// a predicate whose folded form prints as text the parser rejects (the most negative
		// duration): SetTimeRange's error path
		parts = append(parts, &CondNode{Kind: "opaque", Text: r.Pick([]string{"n > -9223372036854775807ns - 1ns", "value < -9223372036854775807ns - 1ns"})})
	}
	if len(parts) == 0 {
		return nil, nil
	}
	if len(parts) > 1 {
		for i, k := range parts {
			if k.Kind == "or" {
				parts[i] = &CondNode{Kind: "paren", Kids: []*CondNode{k}}
			}
		}
	}
	// shuffle and optionally group some adjacent parts into a parenthesised AND group
	perm := r.Perm(len(parts))
	sh := make([]*CondNode, len(parts))
	for i, j := range perm {
		sh[i] = parts[j]
	}
	if long && nTime > 0 {
		// time bounds first: the deepest position of a left-deep AND chain
		sh = append(append([]*CondNode{}, parts[nNon:]...), parts[:nNon]...)
	}
	if len(sh) >= 3 && r.Chance(1, 3) {
		g := &CondNode{Kind: "paren", Kids: []*CondNode{{Kind: "and", Kids: sh[:2]}}}
		sh = append([]*CondNode{g}, sh[2:]...)
	}
	if len(sh) == 1 {
		if sh[0].Kind == "time" && r.Chance(1, 4) {
			return &CondNode{Kind: "paren", Kids: sh}, bounds
		}
		return sh[0], bounds
	}
	return &CondNode{Kind: "and", Kids: sh}, bounds
}

func (C18) NewPlan(r *core.Rand, tier string, i uint64) interface{} {
	p := &C18Plan{}
	p.Start = []int64{946684800000000000, 1700000000123456789, 3600e9, 0, -86400e9 * 365, 4102444800000000000, 1, 86400e9 * 17000}[r.Intn(8)]
	p.Cond, p.OldBounds = genCond(r, p.Start)
	if p.Cond != nil {
		var b strings.Builder
		p.Cond.render(&b)
		p.CondText = b.String()
	}
	p.Interval = []int64{1e9, 10e9, 60e9, 7 * 60e9, 3600e9, 86400e9, 7 * 86400e9, 500, 1500e6}[r.Intn(9)]
	if r.Chance(1, 3) {
		p.Offset = []int64{0, 5e9, -5e9, 1, 123456789}[r.Intn(5)] % p.Interval
	}
	p.Every = p.Interval
	if r.Chance(1, 4) {
		p.Every = p.Interval / int64(r.Range(2, 4))
		if p.Every == 0 {
			p.Every = p.Interval
		}
	}
	if r.Chance(1, 4) {
		p.For = p.Interval * int64(r.Range(2, 4)) // overlap: RESAMPLE FOR longer than EVERY
	}
	p.Zone = r.Pick([]string{"", "", "", "America/New_York", "Asia/Kolkata", "Europe/Berlin"})
	p.Windows = r.Weighted([]int{0, 4, 4, 3, 3, 2, 2, 1})*r.Range(1, 3) + r.Intn(3)
	if p.Windows < 1 {
		p.Windows = 1
	}
	if r.Chance(1, 30) {
		p.Windows = r.Range(50, 200)
	}
	p.CatchUp = r.Chance(1, 2)
	// clock faults: most runs have zero or one kind
	if r.Chance(3, 5) {
		kinds := []string{"jump-forward", "jump-backward", "duplicate", "zero-length", "zone", "extreme"}
		nk := r.Weighted([]int{0, 5, 2, 1})
		span := p.Every * int64(p.Windows)
		for k := 0; k < nk; k++ {
			kind := kinds[r.Intn(len(kinds))]
			for c := r.Range(1, 3); c > 0; c-- {
				ev := ClockEvent{Kind: kind, At: int64(r.Float() * float64(span))}
				switch kind {
				case "jump-forward":
					ev.Arg = p.Every*int64(r.Range(1, 6)) + int64(r.Intn(1000))
				case "jump-backward":
					ev.Arg = p.Every*int64(r.Range(1, 6)) + int64(r.Intn(1000))
				case "extreme":
					ev.Arg = int64(r.Intn(4))
				}
				p.Events = append(p.Events, ev)
			}
		}
	}
	return p
}

func (C18) Decode(b []byte) (interface{}, error) {
	p := &C18Plan{}
	return p, json.Unmarshal(b, p)
}

// ---- discrete-event core ------------------------------------------------------------------------

type simEvent struct {
	at   int64
	seq  uint64
	kind string
	arg  int64
}
type eventHeap []simEvent

func (h eventHeap) Len() int            { return len(h) }
func (h eventHeap) Less(i, j int) bool  { return h[i].at < h[j].at || (h[i].at == h[j].at && h[i].seq < h[j].seq) }
func (h eventHeap) Swap(i, j int)       { h[i], h[j] = h[j], h[i] }
func (h *eventHeap) Push(x interface{}) { *h = append(*h, x.(simEvent)) }
func (h *eventHeap) Pop() interface{} {
	old := *h
	n := len(old)
	x := old[n-1]
	*h = old[:n-1]
	return x
}

// ---- independent evaluator over the AST in stmt.Condition --------------------------------------

type evalErr struct{ msg string }

// evalLoc is the zone in which zone-less time strings of the condition are read (the zone of the
// query's TZ clause / of the evaluating valuer). A window written by SetTimeRange must select the
// same instants whatever that zone is.
var evalLoc = time.UTC

func timeOfLiteral(e influxql.Expr) (int64, bool) {
	switch x := e.(type) {
	case *influxql.StringLiteral:
		for _, f := range []string{time.RFC3339Nano, "2006-01-02 15:04:05.999999999", "2006-01-02"} {
			if t, err := time.ParseInLocation(f, x.Val, evalLoc); err == nil {
				return t.UnixNano(), true
			}
		}
	case *influxql.TimeLiteral:
		return x.Val.UnixNano(), true
	case *influxql.IntegerLiteral:
		return x.Val, true
	case *influxql.DurationLiteral:
		return int64(x.Val), true
	case *influxql.NumberLiteral:
		return int64(x.Val), true
	case *influxql.ParenExpr:
		return timeOfLiteral(x.Expr)
	}
	return 0, false
}

func isTimeVar(e influxql.Expr) bool {
	r, ok := e.(*influxql.VarRef)
	return ok && strings.ToLower(r.Val) == "time"
}

func cmpInt(op influxql.Token, a, b int64) (bool, bool) {
	switch op {
	case influxql.EQ:
		return a == b, true
	case influxql.NEQ:
		return a != b, true
	case influxql.LT:
		return a < b, true
	case influxql.LTE:
		return a <= b, true
	case influxql.GT:
		return a > b, true
	case influxql.GTE:
		return a >= b, true
	}
	return false, false
}

func cmpFloat(op influxql.Token, a, b float64) (bool, bool) {
	switch op {
	case influxql.EQ:
		return a == b, true
	case influxql.NEQ:
		return a != b, true
	case influxql.LT:
		return a < b, true
	case influxql.LTE:
		return a <= b, true
	case influxql.GT:
		return a > b, true
	case influxql.GTE:
		return a >= b, true
	}
	return false, false
}

// evalAST evaluates the condition now in the statement on a point. A node it cannot evaluate is
// reported: after SetTimeRange a condition consists of the kept predicates and the window only.
func evalAST(e influxql.Expr, p *Point) (bool, *evalErr) {
	switch x := e.(type) {
	case nil:
		return true, nil
	case *influxql.ParenExpr:
		return evalAST(x.Expr, p)
	case *influxql.BooleanLiteral:
		return x.Val, nil
	case *influxql.BinaryExpr:
		switch x.Op {
		case influxql.AND:
			a, err := evalAST(x.LHS, p)
			if err != nil {
				return false, err
			}
			b, err := evalAST(x.RHS, p)
			return a && b, err
		case influxql.OR:
			a, err := evalAST(x.LHS, p)
			if err != nil {
				return false, err
			}
			b, err := evalAST(x.RHS, p)
			return a || b, err
		}
		// time comparison, either side
		if isTimeVar(x.LHS) {
			if t, ok := timeOfLiteral(x.RHS); ok {
				if v, ok := cmpInt(x.Op, p.T, t); ok {
					return v, nil
				}
			}
			return false, &evalErr{"time compared with something that is not an instant: " + x.String()}
		}
		if isTimeVar(x.RHS) {
			if t, ok := timeOfLiteral(x.LHS); ok {
				if v, ok := cmpInt(x.Op, t, p.T); ok {
					return v, nil
				}
			}
			return false, &evalErr{"time compared with something that is not an instant: " + x.String()}
		}
		ref, ok := x.LHS.(*influxql.VarRef)
		if !ok {
			return false, &evalErr{"unexpected operand: " + x.String()}
		}
		if onlyDurations(x.RHS) {
			return false, nil // a numeric field compared with a duration is never true
		}
		switch rhs := x.RHS.(type) {
		case *influxql.StringLiteral:
			v := p.Tags[ref.Val]
			switch x.Op {
			case influxql.EQ:
				return v == rhs.Val, nil
			case influxql.NEQ:
				return v != rhs.Val, nil
			}
		case *influxql.RegexLiteral:
			v := p.Tags[ref.Val]
			switch x.Op {
			case influxql.EQREGEX:
				return rhs.Val.MatchString(v), nil
			case influxql.NEQREGEX:
				return !rhs.Val.MatchString(v), nil
			}
		case *influxql.NumberLiteral:
			if v, ok := cmpFloat(x.Op, p.Fields[ref.Val], rhs.Val); ok {
				return v, nil
			}
		case *influxql.IntegerLiteral:
			if v, ok := cmpFloat(x.Op, p.Fields[ref.Val], float64(rhs.Val)); ok {
				return v, nil
			}
		}
		return false, &evalErr{"unexpected predicate: " + x.String()}
	}
	return false, &evalErr{fmt.Sprintf("unexpected node %T: %s", e, e.String())}
}

func onlyDurations(e influxql.Expr) bool {
	switch x := e.(type) {
	case *influxql.DurationLiteral:
		return true
	case *influxql.ParenExpr:
		return onlyDurations(x.Expr)
	case *influxql.BinaryExpr:
		return (x.Op == influxql.ADD || x.Op == influxql.SUB) && onlyDurations(x.LHS) && onlyDurations(x.RHS)
	}
	return false
}

func countNodes(e influxql.Expr) int {
	n := 0
	influxql.WalkFunc(e, func(influxql.Node) { n++ })
	return n
}

func truncTo(t, interval, offset int64) int64 {
	// floor((t - offset) / interval) * interval + offset
	x := t - offset
	q := x / interval
	if x%interval < 0 {
		q--
	}
	return q*interval + offset
}

func (C18) Exec(pi interface{}) *core.RunResult {
	p := pi.(*C18Plan)
	res := &core.RunResult{}
	if p.Interval <= 0 {
		p.Interval = 1e9
	}
	if p.Every <= 0 {
		p.Every = p.Interval
	}
	q := "SELECT mean(value) FROM cpu"
	if p.Cond != nil {
		q += " WHERE " + p.CondText
	}
	q += " GROUP BY time(" + influxql.FormatDuration(time.Duration(p.Interval)) + ")"
	st, err := influxql.ParseStatement(q)
	if err != nil {
		res.Skipped = "generated statement not accepted: " + err.Error()
		return res
	}
	stmt := st.(*influxql.SelectStatement)
	condProbes(p, res)

	// boundary instants: every bound ever written
	instants := map[int64]bool{}
	addInstant := func(t int64) {
		for _, d := range []int64{-1, 0, 1} {
			instants[t+d] = true
		}
	}
	for _, b := range p.OldBounds {
		addInstant(b)
	}
	addInstant(p.Start)
	instants[-4e18] = true
	instants[4e18] = true

	var loc *time.Location
	if p.Zone != "" {
		loc, _ = time.LoadLocation(p.Zone)
	}

	// event heap: ticks and faults on the simulated clock
	h := &eventHeap{}
	var seq uint64
	push := func(at int64, kind string, arg int64) {
		seq++
		heap.Push(h, simEvent{at, seq, kind, arg})
	}
	push(0, "tick", 0)
	for _, ev := range p.Events {
		push(ev.At, ev.Kind, ev.Arg)
	}
	now := p.Start // simulated wall clock of the CQ service
	simT := int64(0)
	applied := 0
	firstCount := -1
	var lastStart, lastEnd int64
	hadPrev := false
	useZone, extreme := false, int64(-1)
	var trace strings.Builder
	pending := []([2]int64){}

	zoneB, _ := time.LoadLocation("America/New_York")
	if loc != nil {
		zoneB = loc
	}
	apply := func(ws, we int64, why string) bool {
		start, end := time.Unix(0, ws), time.Unix(0, we)
		if useZone && loc != nil {
			start, end = start.In(loc), end.In(loc)
			res.Probe("non-utc-window")
		} else {
			start, end = start.UTC(), end.UTC()
		}
		var rerr error
		condBefore := ""
		if stmt.Condition != nil {
			condBefore = exprString(stmt.Condition)
		}
		verifhook.BeginOp(opBudget)
		pan := core.Guard(func() { rerr = stmt.SetTimeRange(start, end) })
		res.Steps += verifhook.EndOp()
		applied++
		ctx := func() string {
			return fmt.Sprintf("call %d (%s): SetTimeRange(%s, %s)\ninitial condition: %s\ncondition now: %s", applied, why, start.Format(time.RFC3339Nano), end.Format(time.RFC3339Nano), p.CondText, exprString(stmt.Condition))
		}
		if pan != nil {
			res.Violate(pan.Sig(), "SetTimeRange panicked: "+pan.Msg+"\n"+ctx())
			return false
		}
		if rerr != nil {
			// An error is inherited, not SetTimeRange's own, when the statement's condition printed
			// before the call is text the parser rejects (print/parse asymmetry, C02/C08 territory)
			if condBefore != "" {
				if _, perr := influxql.ParseExpr(condBefore); perr != nil {
					res.Probe("error-inherited-from-unparseable-condition")
					return true
				}
			}
			res.Violate("settimerange-error", "SetTimeRange returned an error for a representable window: "+rerr.Error()+"\n"+ctx())
			return false
		}
		if hadPrev && ws < lastStart {
			res.Probe("window-before-previous")
		}
		if ws < 0 {
			res.Probe("pre-epoch-window")
		}
		if ws%1000 != 0 || we%1000 != 0 {
			res.Probe("sub-second-window")
		}
		lastStart, lastEnd, hadPrev = ws, we, true
		addInstant(ws)
		addInstant(we)
		// invariant 1: selection
		pts := make([]int64, 0, len(instants))
		for t := range instants {
			pts = append(pts, t)
		}
		sortInt64(pts)
		if len(pts) > 90 {
			// keep the newest bounds and a spread of the older ones
			pts = append(pts[:30], pts[len(pts)-60:]...)
		}
		for _, host := range c18Tags["host"] {
			for _, region := range c18Tags["region"] {
				for _, value := range c18Fields["value"] {
					for _, nn := range c18Fields["n"] {
						pt := &Point{Tags: map[string]string{"host": host, "region": region}, Fields: map[string]float64{"value": value, "n": nn}}
						nonTime := true
						if p.Cond != nil {
							nonTime = p.Cond.evalNonTime(pt)
						}
						for _, t := range pts {
							pt.T = t
							want := nonTime && ws <= t && t < we
							evalLoc = time.UTC
							got, eerr := evalAST(stmt.Condition, pt)
							if eerr == nil && got == want && zoneB != nil {
								// the same condition read in a non-UTC evaluation zone
								evalLoc = zoneB
								got, eerr = evalAST(stmt.Condition, pt)
								evalLoc = time.UTC
								if eerr == nil && got != want {
									res.Violate("selection-mismatch:zone", fmt.Sprintf("evaluated in zone %s, point {host=%s region=%s value=%v n=%v time=%d (%s)}: statement selects it = %v, expected %v (window [%d, %d)): the window depends on the evaluation zone\n%s", zoneB, host, region, value, nn, t, time.Unix(0, t).UTC().Format(time.RFC3339Nano), got, want, ws, we, ctx()))
									return false
								}
							}
							if eerr != nil {
								res.Violate("selection-mismatch", "after SetTimeRange the condition contains a form that is neither a kept predicate nor the window: "+eerr.msg+"\n"+ctx())
								return false
							}
							if got != want {
								res.Violate("selection-mismatch", fmt.Sprintf("point {host=%s region=%s value=%v n=%v time=%d (%s)}: statement selects it = %v, expected %v (non-time part %v, window [%d, %d))\n%s", host, region, value, nn, t, time.Unix(0, t).UTC().Format(time.RFC3339Nano), got, want, nonTime, ws, we, ctx()))
								return false
							}
						}
					}
				}
			}
		}
		// invariant 2: no growth
		c := countNodes(stmt.Condition)
		if firstCount < 0 {
			firstCount = c
		} else if c > firstCount {
			res.Violate("condition-grows", fmt.Sprintf("condition has %d nodes after call %d, %d after call 1\n%s", c, applied, firstCount, ctx()))
			return false
		}
		fmt.Fprintf(&trace, "%d:%d:%d;", ws, we, c)
		return true
	}

	lastTickWindowEnd := int64(0)
	haveTick := false
	ticks := 0
	for h.Len() > 0 && applied < p.Windows+8 {
		ev := heap.Pop(h).(simEvent)
		// when nothing is runnable the clock jumps to the next event
		now += ev.at - simT
		simT = ev.at
		switch ev.kind {
		case "tick":
			if applied >= p.Windows {
				continue
			}
			ticks++
			if ticks > p.Windows+16 {
				continue
			}
			base := now
			if extreme >= 0 {
				base = []int64{-9223372036854775806 + 10*p.Interval, 9223372036854775806 - 10*p.Interval, -1, -p.Interval/2 - 1}[extreme%4]
				extreme = -1
			}
			we := truncTo(base, p.Interval, p.Offset)
			span := p.Interval
			if p.For > span {
				span = p.For
			}
			ws := we - span
			// missed windows after a forward jump: catch-up burst or skip
			if haveTick && p.CatchUp && we-lastTickWindowEnd > p.Interval && we > lastTickWindowEnd {
				missed := (we - lastTickWindowEnd) / p.Interval
				if missed > 6 {
					missed = 6
				}
				for k := missed - 1; k >= 1; k-- {
					pending = append(pending, [2]int64{we - k*p.Interval - span, we - k*p.Interval})
				}
				if len(pending) > 0 {
					res.Probe("catch-up-burst")
				}
			}
			okk := true
			for _, w := range pending {
				if !apply(w[0], w[1], "catch-up") {
					okk = false
					break
				}
			}
			pending = pending[:0]
			if okk {
				okk = apply(ws, we, "tick")
			}
			if !okk {
				h = &eventHeap{}
				break
			}
			lastTickWindowEnd, haveTick = we, true
			push(simT+p.Every, "tick", 0)
		case "jump-forward":
			now += ev.arg
			res.Fault("jump-forward")
		case "jump-backward":
			now -= ev.arg
			res.Fault("jump-backward")
		case "duplicate":
			if hadPrev {
				res.Fault("duplicate")
				if !apply(lastStart, lastEnd, "duplicate tick") {
					h = &eventHeap{}
				}
			}
		case "zero-length":
			if hadPrev {
				res.Fault("zero-length")
				if !apply(lastEnd, lastEnd, "zero-length window") {
					h = &eventHeap{}
				}
			}
		case "zone":
			useZone = true
			if loc == nil {
				loc, _ = time.LoadLocation("America/New_York")
			}
			res.Fault("zone")
		case "extreme":
			extreme = ev.arg
			res.Fault("extreme")
		}
	}
	if applied >= 10 {
		res.Probe("windows>=10")
	}
	res.AddExtra("simulated_seconds", float64(simT)/1e9)
	res.AddExtra("windows_applied", float64(applied))
	res.Nontrivial = applied >= 2 && (len(p.OldBounds) > 0 || len(res.Faults) > 0)
	res.Trace = core.Hash64(trace.String() + exprString(stmt.Condition))
	res.States = []uint64{core.Hash64(shapeOf(core.FP(stmt.Condition)))}
	return res
}

func exprString(e influxql.Expr) (s string) {
	if e == nil {
		return "<nil>"
	}
	defer func() {
		if recover() != nil {
			s = "<String() panics>"
		}
	}()
	return e.String()
}

func sortInt64(a []int64) {
	for i := 1; i < len(a); i++ {
		for j := i; j > 0 && a[j] < a[j-1]; j-- {
			a[j], a[j-1] = a[j-1], a[j]
		}
	}
}

func condProbes(p *C18Plan, res *core.RunResult) {
	if p.Cond == nil {
		res.Probe("no-where")
		return
	}
	if p.Cond.Kind == "or" {
		res.Probe("top-level-or")
	}
	var walk func(n *CondNode)
	walk = func(n *CondNode) {
		if n.Kind == "time" {
			res.Probe("initial-time-bound")
			lt := strings.ToLower(n.Text)
			if !strings.HasPrefix(lt, "time") {
				res.Probe("time-on-right")
			}
			if strings.Contains(n.Text, "TIME") {
				res.Probe("upper-case-time")
			}
			switch {
			case strings.Contains(n.Text, "now()"):
				res.Probe("now-relative")
			case strings.Contains(n.Text, "'"):
				res.Probe("cond-form:string")
			case strings.HasSuffix(n.Text, "s") || strings.Contains(n.Text, "s "):
				res.Probe("cond-form:duration")
			default:
				res.Probe("cond-form:integer")
			}
		}
		for _, k := range n.Kids {
			walk(k)
		}
	}
	walk(p.Cond)
}

func (C18) Shrink(pi interface{}) []interface{} {
	p := pi.(*C18Plan)
	var out []interface{}
	cp := func() *C18Plan {
		q := &C18Plan{}
		b, _ := json.Marshal(p)
		_ = json.Unmarshal(b, q)
		return q
	}
	retext := func(q *C18Plan) *C18Plan {
		if q.Cond != nil {
			var b strings.Builder
			q.Cond.render(&b)
			q.CondText = b.String()
		} else {
			q.CondText = ""
		}
		return q
	}
	if len(p.Events) > 0 {
		q := cp()
		q.Events = nil
		out = append(out, q)
		for i := range p.Events {
			q := cp()
			q.Events = append(q.Events[:i:i], q.Events[i+1:]...)
			out = append(out, q)
		}
	}
	for _, w := range []int{1, 2, 3, p.Windows / 2, p.Windows - 1} {
		if w >= 1 && w < p.Windows {
			q := cp()
			q.Windows = w
			out = append(out, q)
		}
	}
	if p.For != 0 || p.Offset != 0 || p.Every != p.Interval || p.Zone != "" {
		q := cp()
		q.For, q.Offset, q.Every, q.Zone = 0, 0, q.Interval, ""
		out = append(out, q)
	}
	if p.Interval != 3600e9 {
		q := cp()
		q.Interval, q.Every, q.For, q.Offset = 3600e9, 3600e9, 0, 0
		out = append(out, q)
	}
	if p.Cond != nil {
		q := cp()
		q.Cond = nil
		out = append(out, retext(q))
		// drop / hoist children
		var paths [][]int
		var collect func(n *CondNode, path []int)
		collect = func(n *CondNode, path []int) {
			for i, k := range n.Kids {
				pp := append(append([]int{}, path...), i)
				paths = append(paths, pp)
				collect(k, pp)
			}
		}
		collect(p.Cond, nil)
		for _, pp := range paths {
			// hoist: replace the whole condition by this subtree
			q := cp()
			n := q.Cond
			for _, i := range pp {
				n = n.Kids[i]
			}
			q.Cond = n
			out = append(out, retext(q))
			// drop: remove this child from its parent (if the parent keeps >= 1 kid)
			q2 := cp()
			par := q2.Cond
			for _, i := range pp[:len(pp)-1] {
				par = par.Kids[i]
			}
			if len(par.Kids) >= 2 {
				i := pp[len(pp)-1]
				par.Kids = append(par.Kids[:i:i], par.Kids[i+1:]...)
				if len(par.Kids) == 1 && (par.Kind == "and" || par.Kind == "or") {
					*par = *par.Kids[0]
				}
				out = append(out, retext(q2))
			}
		}
	}
	return out
}
