package engines

import (
	"sort"
	"strings"

	"github.com/influxdata/influxql"

	"verifsim/gen"
	"verifsim/simschema"
)

// Reference model of wildcard expansion (C12), written from the property text. It reads the
// *input* statement (a fresh parse; parsing is not under test here) and the schema, never the
// output of RewriteFields. Where the property text does not settle the outcome it says so
// (Unsettled) and only determinism is demanded.

type mCol struct {
	Name string
	Type string // float|integer|unsigned|string|boolean|tag, or "?" when the model does not decide
}

type mResult struct {
	Fields    []string // expected Field.Expr.String() per output field
	Dims      []string // expected Dimension.String() per output dimension
	Err       bool     // an error is the expected outcome
	Unsettled string   // non-empty: not settled by the property text (reason)
	cols      []mCol   // output columns, when used as a subquery source
	tags      []string // plain GROUP BY references, when used as a subquery source
}

func typeStr(t influxql.DataType) string { return t.String() }

// sourceColumns computes the columns of a FROM clause.
func sourceColumns(sources influxql.Sources, sc gen.Schema) (fields map[string]string, tags map[string]bool, unsettled string) {
	fields = map[string]string{}
	tags = map[string]bool{}
	for _, src := range sources {
		switch s := src.(type) {
		case *influxql.Measurement:
			f, t := simschema.Columns(sc, s)
			for k, typ := range f {
				if cur, ok := fields[k]; ok && cur == "?" {
					continue // undecided stays undecided
				} else if !ok || simschema.Rank(typ) > simschema.Rank(cur) {
					fields[k] = typ
				}
			}
			for _, tg := range t {
				tags[tg] = true
			}
		case *influxql.SubQuery:
			for _, f := range s.Statement.Fields {
				if c, ok := f.Expr.(*influxql.Call); ok && (c.Name == "top" || c.Name == "bottom") && len(c.Args) > 2 {
					return nil, nil, "top()/bottom() tag arguments as columns of a subquery"
				}
			}
			sub := modelRewrite(s.Statement, sc)
			if sub.Err {
				return nil, nil, "subquery expansion is an error"
			}
			if sub.Unsettled != "" {
				return nil, nil, "subquery: " + sub.Unsettled
			}
			seen := map[string]bool{}
			for _, c := range sub.cols {
				if c.Name == "" {
					return nil, nil, "subquery column without a name"
				}
				if seen[c.Name] {
					return nil, nil, "subquery with duplicate column names"
				}
				seen[c.Name] = true
				if cur, ok := fields[c.Name]; !ok {
					fields[c.Name] = c.Type
				} else if cur == "?" || c.Type == "?" {
					fields[c.Name] = "?"
				} else if simschema.Rank(c.Type) > simschema.Rank(cur) {
					fields[c.Name] = c.Type
				}
			}
			for _, tg := range sub.tags {
				tags[tg] = true
			}
		}
	}
	return fields, tags, ""
}

// exprType is the model's typing of a field expression against source columns. "?" = undecided.
func exprType(e influxql.Expr, fields map[string]string, tags map[string]bool) string {
	switch x := e.(type) {
	case *influxql.VarRef:
		if x.Type != influxql.Unknown && x.Type != influxql.AnyField {
			return typeStr(x.Type)
		}
		if t, ok := fields[x.Val]; ok && !(t == "unknown" && tags[x.Val]) {
			return t
		}
		if tags[x.Val] {
			return "tag"
		}
		return "unknown"
	case *influxql.ParenExpr:
		return exprType(x.Expr, fields, tags)
	case *influxql.NumberLiteral:
		return "float"
	case *influxql.IntegerLiteral:
		return "integer"
	case *influxql.UnsignedLiteral:
		return "unsigned"
	case *influxql.StringLiteral:
		return "string"
	case *influxql.BooleanLiteral:
		return "boolean"
	case *influxql.Call:
		args := make([]influxql.DataType, len(x.Args))
		for i, a := range x.Args {
			t := exprType(a, fields, tags)
			if t == "?" {
				return "?"
			}
			args[i] = influxql.DataTypeFromString(t)
		}
		return typeStr(simschema.CallTypeOf(x.Name, args))
	case *influxql.BinaryExpr:
		return "?"
	}
	return "unknown"
}

func hasWildNode(e influxql.Expr) bool {
	found := false
	influxql.WalkFunc(e, func(n influxql.Node) {
		switch n.(type) {
		case *influxql.Wildcard, *influxql.RegexLiteral:
			found = true
		}
	})
	return found
}

// columnName mirrors the documented naming of an output column: alias, else function name, else
// reference name; "" when the model does not know.
func columnName(f *influxql.Field) string {
	if f.Alias != "" {
		return f.Alias
	}
	switch x := f.Expr.(type) {
	case *influxql.VarRef:
		return x.Val
	case *influxql.Call:
		return x.Name
	}
	return ""
}

// annotate returns a copy of e in which every reference without a type (or with ::field) carries
// its schema type, tags excepted for ::field. ok=false if some type is undecided.
func annotate(e influxql.Expr, fields map[string]string, tags map[string]bool) (influxql.Expr, bool) {
	c := influxql.CloneExpr(e)
	ok := true
	influxql.WalkFunc(c, func(n influxql.Node) {
		ref, is := n.(*influxql.VarRef)
		if !is || (ref.Type != influxql.Unknown && ref.Type != influxql.AnyField) {
			return
		}
		t := exprType(ref, fields, tags)
		switch t {
		case "?":
			ok = false
		case "tag":
			if ref.Type != influxql.AnyField { // ::field on a tag stays as written
				ref.Type = influxql.Tag
			}
		case "unknown":
			ref.Type = influxql.Unknown
		default:
			ref.Type = influxql.DataTypeFromString(t)
		}
	})
	return c, ok
}

var callString = map[string]bool{"count": true, "first": true, "last": true, "distinct": true, "elapsed": true, "mode": true, "sample": true}
var callBool = map[string]bool{"count": true, "first": true, "last": true, "distinct": true, "elapsed": true, "mode": true, "sample": true, "min": true, "max": true}
var callNoUnsigned = map[string]bool{"holt_winters": true, "holt_winters_with_fit": true}

func callSupports(fn, typ string) bool {
	switch typ {
	case "float", "integer":
		return true
	case "unsigned":
		return !callNoUnsigned[fn]
	case "string":
		return callString[fn]
	case "boolean":
		return callBool[fn]
	}
	return false
}

func modelRewrite(stmt *influxql.SelectStatement, sc gen.Schema) *mResult {
	res := &mResult{}
	fields, tags, uns := sourceColumns(stmt.Sources, sc)
	if uns != "" {
		res.Unsettled = uns
		return res
	}
	hasFieldWild := false
	for _, f := range stmt.Fields {
		if hasWildNode(f.Expr) {
			hasFieldWild = true
		}
	}
	hasDimWild := false
	grouped := map[string]bool{}
	for _, d := range stmt.Dimensions {
		switch x := d.Expr.(type) {
		case *influxql.Wildcard, *influxql.RegexLiteral:
			hasDimWild = true
		case *influxql.VarRef:
			grouped[x.Val] = true
		}
	}

	// columns available to field wildcards: fields, plus the tags the statement does not group by
	var cols []mCol
	for k, t := range fields {
		cols = append(cols, mCol{k, t})
	}
	if !hasDimWild {
		for t := range tags {
			if !grouped[t] {
				cols = append(cols, mCol{t, "tag"})
			}
		}
	}
	sort.Slice(cols, func(i, j int) bool {
		if cols[i].Name != cols[j].Name {
			return cols[i].Name < cols[j].Name
		}
		// a name that is both field and tag: relative order is not in the property; canonical here,
		// and the comparison canonicalises the observed side the same way
		return cols[i].Type < cols[j].Type
	})
	var allTags []string
	for t := range tags {
		allTags = append(allTags, t)
	}
	sort.Strings(allTags)

	if hasFieldWild && len(fields) == 0 && len(tags) > 0 {
		res.Unsettled = "schema with tags but no fields"
		return res
	}
	if hasDimWild {
		for _, src := range stmt.Sources {
			if _, ok := src.(*influxql.SubQuery); ok && len(tags) > 0 && hasFieldWild {
				res.Unsettled = "tag column from a subquery under GROUP BY wildcard"
				return res
			}
		}
	}

	emit := func(e influxql.Expr, name string) {
		res.Fields = append(res.Fields, e.String())
		res.cols = append(res.cols, mCol{name, exprType(e, fields, tags)})
	}

	for _, f := range stmt.Fields {
		switch x := f.Expr.(type) {
		case *influxql.Wildcard:
			for _, c := range cols {
				if x.Type != 0 && c.Type == "?" {
					res.Unsettled = "typed wildcard over a column whose type the model does not decide"
					return res
				}
				if x.Type == influxql.FIELD && c.Type == "tag" {
					continue
				}
				if x.Type == influxql.TAG && c.Type != "tag" {
					continue
				}
				ref := &influxql.VarRef{Val: c.Name, Type: influxql.DataTypeFromString(c.Type)}
				res.Fields = append(res.Fields, expandString(ref, c))
				res.cols = append(res.cols, colOf(c, fields, tags))
			}
			continue
		case *influxql.RegexLiteral:
			for _, c := range cols {
				if x.Val.MatchString(c.Name) {
					ref := &influxql.VarRef{Val: c.Name, Type: influxql.DataTypeFromString(c.Type)}
					res.Fields = append(res.Fields, expandString(ref, c))
					res.cols = append(res.cols, colOf(c, fields, tags))
				}
			}
			continue
		case *influxql.Call:
			// innermost call along first arguments
			depth := 0
			call := x
			for len(call.Args) > 0 {
				inner, ok := call.Args[0].(*influxql.Call)
				if !ok {
					break
				}
				call = inner
				depth++
			}
			if len(call.Args) > 0 {
				var re *influxql.RegexLiteral
				isWild := false
				switch a := call.Args[0].(type) {
				case *influxql.Wildcard:
					if a.Type == influxql.TAG {
						res.Err = true
						return res
					}
					isWild = true
				case *influxql.RegexLiteral:
					re = a
					isWild = true
				}
				if isWild {
					for _, c := range cols {
						if c.Type == "tag" {
							continue
						}
						if c.Type == "?" {
							res.Unsettled = "call wildcard over a column whose type the model does not decide"
							return res
						}
						if !callSupports(call.Name, c.Type) {
							continue
						}
						if re != nil && !re.Val.MatchString(c.Name) {
							continue
						}
						tmpl := influxql.CloneExpr(x).(*influxql.Call)
						in := tmpl
						for i := 0; i < depth; i++ {
							in = in.Args[0].(*influxql.Call)
						}
						in.Args[0] = &influxql.VarRef{Val: c.Name, Type: influxql.DataTypeFromString(c.Type)}
						// other references inside the template keep/receive their types like any field
						ann, ok := annotate(tmpl, fields, tags)
						if !ok {
							res.Unsettled = "undecided reference type inside an expanded call"
							return res
						}
						res.Fields = append(res.Fields, ann.String())
						res.cols = append(res.cols, mCol{"", "?"}) // generated alias is not in the property
					}
					continue
				}
			}
		case *influxql.BinaryExpr:
			if hasWildNode(x) {
				res.Unsettled = "wildcard or regex inside arithmetic"
				return res
			}
		}
		// every other field stays in place; untyped references receive their schema type
		if hasWildNode(f.Expr) {
			// wildcard/regex in a position the property does not list (non-first argument, inside
			// parentheses): stays in place
			ann, ok := annotate(f.Expr, fields, tags)
			if !ok {
				res.Unsettled = "undecided reference type"
				return res
			}
			emit(ann, columnName(f))
			continue
		}
		ann, ok := annotate(f.Expr, fields, tags)
		if !ok {
			res.Unsettled = "undecided reference type"
			return res
		}
		emit(ann, columnName(f))
	}

	for _, d := range stmt.Dimensions {
		switch x := d.Expr.(type) {
		case *influxql.Wildcard:
			for _, t := range allTags {
				res.Dims = append(res.Dims, (&influxql.VarRef{Val: t}).String())
				res.tags = append(res.tags, t)
			}
		case *influxql.RegexLiteral:
			matchedAll := true
			for _, t := range allTags {
				if x.Val.MatchString(t) {
					res.Dims = append(res.Dims, (&influxql.VarRef{Val: t}).String())
					res.tags = append(res.tags, t)
				} else {
					matchedAll = false
				}
			}
			if !matchedAll && hasFieldWild {
				res.Unsettled = "GROUP BY regex matching only some tags together with a field wildcard"
				return res
			}
		default:
			res.Dims = append(res.Dims, d.String())
			if ref, ok := d.Expr.(*influxql.VarRef); ok {
				res.tags = append(res.tags, ref.Val)
			}
		}
	}
	return res
}

// colOf is the output column an expanded reference contributes when this statement is itself a
// subquery: an expanded column of unknown type is typed like any untyped reference to that name.
func colOf(c mCol, fields map[string]string, tags map[string]bool) mCol {
	if c.Type == "unknown" {
		return mCol{c.Name, exprType(&influxql.VarRef{Val: c.Name}, fields, tags)}
	}
	return c
}

func expandString(ref *influxql.VarRef, c mCol) string {
	if c.Type == "?" {
		return influxql.QuoteIdent(c.Name) + "::?"
	}
	return ref.String()
}

// canonObserved renders the observed fields the way the model renders expectations, canonicalising
// the order of adjacent same-name columns (field vs tag of one name).
func canonPairs(xs []string) []string {
	out := append([]string(nil), xs...)
	name := func(s string) string {
		if i := strings.LastIndex(s, "::"); i > 0 {
			return s[:i]
		}
		return s
	}
	for i := 0; i < len(out); {
		j := i + 1
		for j < len(out) && name(out[j]) == name(out[i]) {
			j++
		}
		sort.Strings(out[i:j])
		i = j
	}
	return out
}
