package engines

import (
	"encoding/json"
	"fmt"
	"regexp"
	"sort"
	"strconv"
	"strings"
	"time"

	"github.com/influxdata/influxql"
	"github.com/influxdata/influxql/verifhook"

	"verifsim/core"
	"verifsim/gen"
	"verifsim/simschema"
)

// opsim: operation sequences over parsed statements with simulated (failing, odd) schema services
// and valuers. C13 = no operation panics; C14 = clones are faithful and independent, derived
// operations leave the receiver alone (DESIGN.md §4 C13, C14).

// Op is one step of a drawn operation sequence.
type Op struct {
	Name   string `json:"op"`
	Keep   bool   `json:"keep,omitempty"`   // replace the working statement by the result (Reduce, RewriteFields, Clone)
	Arg    int    `json:"arg,omitempty"`    // small integer argument (field index, rewriter variant, window ...)
	Target int    `json:"target,omitempty"` // C14: which AST
	Site   int    `json:"site,omitempty"`   // C14: which mutable site (mod number of sites)
}

type OpEnv struct {
	Schema  gen.Schema             `json:"schema"`
	MFaults simschema.MapperFaults `json:"mapper_faults"`
	Valuer  simschema.ValuerPlan   `json:"valuer"`
	IntDiv  bool                   `json:"integer_float_division,omitempty"`
	// ValuerKind: how the valuer handed to the library is composed out of the stub and the
	// package's own valuers (0 stub; 1 MultiValuer(NowValuer, stub); 2 NowValuer alone;
	// 3 MapValuer of the stub's bindings; 4 MultiValuer(stub, MapValuer, NowValuer))
	ValuerKind int `json:"valuer_kind,omitempty"`
	// MapperKind: 0 stub; 1 MultiTypeMapper(stub, stub) for type evaluation
	MapperKind int `json:"mapper_kind,omitempty"`
}

var selectOps = []string{
	"String", "Clone", "WalkFunc", "WalkNil", "RewriteIdentity", "RewriteReplace", "RewriteExprIdentity", "RewriteExprDrop",
	"RewriteRegexConditions", "RewriteDistinct", "RewriteTimeFields", "RewriteFields", "Reduce", "ReduceExpr",
	"Eval", "EvalBool", "EvalFields", "EvalType", "TypeValuerEval", "ConditionExpr", "SetTimeRange",
	"GroupByInterval", "GroupByOffset", "Normalize", "ColumnNames", "FieldExprByName", "Names", "AliasNames",
	"Measurements", "HasWildcard", "HasTimeExpr", "ExprNames", "RequiredPrivileges",
	"TimeAscending", "ContainsVarRef", "IsSelector", "FieldDimensions", "BinaryExprName", "CloneExpr", "MatchSource",
	"TimeRangeMethods", "PartitionExpr", "ConjunctionsRoundTrip", "SortFields", "ListStrings",
}

func genEnv(r *core.Rand) OpEnv {
	env := OpEnv{Schema: gen.GenSchema(r)}
	if r.Chance(1, 3) {
		switch r.Intn(4) {
		case 0:
			env.MFaults.ErrorAt = []int{r.Intn(3)}
		case 1:
			env.MFaults.NilMaps = true
		case 2:
			env.MFaults.CallTypeErr = []int{r.Intn(3)}
		case 3:
			env.MFaults.UnknownAt = []int{r.Intn(4), r.Intn(8)}
		}
	}
	v := simschema.ValuerPlan{Vars: map[string]simschema.VarVal{}, HasCall: r.Chance(3, 4), HasZone: r.Chance(1, 2), CallOK: r.Chance(4, 5)}
	v.NowNanos = []int64{0, 1, 946684800000000000, 1700000000123456789, -1, 9223372036854775806, -9223372036854775806, 4102444800000000000}[r.Intn(8)]
	v.NowZero = r.Chance(1, 10)
	v.Zone = r.Pick([]string{"", "", "UTC", "America/New_York", "Asia/Kolkata", "Australia/Lord_Howe"})
	names := []string{"f0", "f1", "f2", "value", "t0", "host", "region", "x", "time", "usage idle", "now()"}
	kinds := []string{"int64", "float64", "string", "bool", "uint64", "duration", "time", "nil", "int", "uint8", "bytes", "ptr", "nan", "inf", "ninf", "minint", "maxint", "maxuint", "missing"}
	for k := r.Intn(6); k > 0; k-- {
		vv := simschema.VarVal{Kind: kinds[r.Intn(len(kinds))], I: []int64{0, 1, -1, 7, 1 << 40, -9223372036854775808}[r.Intn(6)], F: []float64{0, 0.5, -2.25, 1e308, 1e-300}[r.Intn(5)], S: r.Pick([]string{"", "a", "server01", "2000-01-01T00:00:00Z", "x y"})}
		if r.Chance(1, 2) {
			vv.Kind = kinds[r.Intn(6)] // bias to the kinds the evaluator knows
		}
		v.Vars[names[r.Intn(len(names))]] = vv
	}
	env.Valuer = v
	env.IntDiv = r.Chance(1, 2)
	env.ValuerKind = r.Weighted([]int{5, 2, 1, 1, 1})
	env.MapperKind = r.Weighted([]int{6, 2, 1})
	return env
}

// ---------------------------------------------------------------------------------------------
// C13

type C13Plan struct {
	Text string `json:"text"`
	Env  OpEnv  `json:"env"`
	Ops  []Op   `json:"ops"`
}

type C13 struct{}

func (C13) Meta() core.Meta {
	return core.Meta{
		Property: "C13", Engine: "opsim", Level: "exploration",
		Rule: "A case = (generated statement text biased towards accepted-but-odd shapes, generated schema + mapper fault schedule, simulated valuer incl. wrong-kind / NaN / extreme values and a simulated clock value, a drawn sequence of 1..12 public operations). In-place rewrites change the statement later operations see. Non-trivial = sequence of >= 2 operations of which at least one is an in-place rewrite or used a faulty/odd service. Distinct = distinct plan hash.",
		Assumptions: []string{
			"the quantifier over accepted statements is sampled by the workload generator; this is a sampled crash oracle, exhaustive over nothing",
			"rewriters passed to Rewrite/RewriteExpr are type-preserving (Expr -> Expr); a caller returning a node of the wrong kind is misuse, not a library defect",
		},
		Real:       []string{"influxql parser and every public AST operation (instrumented copy of the working tree)"},
		Stub:       []string{"meta store (simschema.Mapper)", "point valuer / clock (simschema.Valuer)"},
		ProbeNames: []string{"op:RewriteFields", "op:Reduce", "op:SetTimeRange", "op:ConditionExpr", "op:ColumnNames", "op:Normalize", "op:GroupByOffset", "kept-result", "non-select", "valuer-odd-kind", "mapper-fault", "zero-arg-call", "odd-time-dimension"},
		FaultNames: []string{"mapper-error", "nil-maps", "calltype-error", "maptype-unknown"},
	}
}

func (C13) Runs(tier string) uint64 {
	if tier == "thorough" {
		return 20000000
	}
	return 1500000
}

func genOps(r *core.Rand, n int) []Op {
	var ops []Op
	for i := 0; i < n; i++ {
		o := Op{Name: selectOps[r.Intn(len(selectOps))], Arg: r.Intn(1000)}
		switch o.Name {
		case "Reduce", "RewriteFields", "Clone":
			o.Keep = r.Chance(1, 2)
		}
		ops = append(ops, o)
	}
	return ops
}

func (C13) NewPlan(r *core.Rand, tier string, i uint64) interface{} {
	p := &C13Plan{}
	o := gen.Opts{MaxDepth: r.Intn(3), Wild: r.Range(0, 8), Odd: r.Range(3, 10), Into: true, TimeCond: true, AllClauses: r.Chance(1, 3)}
	if r.Chance(1, 6) {
		p.Text = gen.Statement(r, o)
	} else {
		p.Text = gen.Select(r, o, 0)
	}
	p.Env = genEnv(r)
	p.Ops = genOps(r, r.Range(1, 12))
	return p
}

func (C13) Decode(b []byte) (interface{}, error) {
	p := &C13Plan{}
	return p, json.Unmarshal(b, p)
}

// opCtx carries the services of one run.
type mapperIface interface {
	influxql.FieldMapper
	CallType(name string, args []influxql.DataType) (influxql.DataType, error)
}

type opCtx struct {
	env    *OpEnv
	mapper *simschema.Mapper // per-context stub (statistics live here)
	fm     mapperIface       // the mapper operations use (the stub, or a mapper shared between tasks)
	valuer influxql.Valuer
}

func newOpCtx(env *OpEnv) *opCtx {
	c := &opCtx{env: env}
	c.mapper = simschema.NewMapper(env.Schema, env.MFaults)
	c.fm = c.mapper
	stub := simschema.NewValuer(&env.Valuer).(influxql.Valuer)
	now := &influxql.NowValuer{Now: time.Unix(0, env.Valuer.NowNanos).UTC()}
	if env.Valuer.NowZero {
		now.Now = time.Time{}
	}
	if env.Valuer.Zone != "" {
		if loc, err := time.LoadLocation(env.Valuer.Zone); err == nil {
			now.Location = loc
		}
	}
	mv := influxql.MapValuer{}
	for _, k := range sortedVarNames(env.Valuer.Vars) {
		if x, ok := env.Valuer.Vars[k].Value(); ok {
			mv[k] = x
		}
	}
	switch env.ValuerKind {
	case 1:
		c.valuer = influxql.MultiValuer(now, stub)
	case 2:
		c.valuer = now
	case 3:
		c.valuer = mv
	case 4:
		c.valuer = influxql.MultiValuer(stub, mv, now)
	default:
		c.valuer = stub
	}
	return c
}

func sortedVarNames(m map[string]simschema.VarVal) []string {
	ks := make([]string, 0, len(m))
	for k := range m {
		ks = append(ks, k)
	}
	sortStringsInPlace(ks)
	return ks
}

// typeMapper is the TypeMapper handed to type evaluation (the stub, or the package's own
// MultiTypeMapper around it).
func (c *opCtx) typeMapper() influxql.TypeMapper {
	if c.env.MapperKind == 2 {
		return nil // EvalType documents a nil mapper as "no type information"
	}
	if c.env.MapperKind == 1 {
		return influxql.MultiTypeMapper(c.fm, c.fm)
	}
	return c.fm
}

func windowFor(arg int) (time.Time, time.Time) {
	bases := []int64{0, 946684800000000000, 1700000000000000000, -3600000000000, 9223372036854775000, -9223372036854775000, 1}
	b := bases[arg%len(bases)]
	w := []int64{0, 1, 1000, 10000000000, 3600000000000, 86400000000000}[(arg/7)%6]
	start := time.Unix(0, b)
	end := time.Unix(0, b+w)
	if arg%3 == 0 {
		if loc, err := time.LoadLocation("America/New_York"); err == nil {
			start, end = start.In(loc), end.In(loc)
		}
	}
	return start, end
}

func pickExpr(s *influxql.SelectStatement, arg int) influxql.Expr {
	var xs []influxql.Expr
	if s.Condition != nil {
		xs = append(xs, s.Condition)
	}
	for _, f := range s.Fields {
		xs = append(xs, f.Expr)
	}
	for _, d := range s.Dimensions {
		xs = append(xs, d.Expr)
	}
	if len(xs) == 0 {
		return nil
	}
	return xs[arg%len(xs)]
}

// applySelectOp applies one operation; it returns a canonical rendering of the result (for the
// event log and for result-equality checks) and, for ops with Keep, the replacement statement.
func (c *opCtx) applySelectOp(s *influxql.SelectStatement, op Op) (result string, repl *influxql.SelectStatement) {
	switch op.Name {
	case "String":
		return s.String(), nil
	case "Clone":
		cl := s.Clone()
		if op.Keep {
			repl = cl
		}
		return core.FP(cl), repl
	case "WalkFunc":
		n := 0
		influxql.WalkFunc(s, func(influxql.Node) { n++ })
		return fmt.Sprint(n), nil
	case "WalkNil":
		v := &stopVisitor{stopAt: op.Arg % 7}
		influxql.Walk(v, s)
		return fmt.Sprint(v.n), nil
	case "RewriteIdentity":
		influxql.RewriteFunc(s, func(n influxql.Node) influxql.Node { return n })
		return "", nil
	case "RewriteReplace":
		k := 0
		influxql.RewriteFunc(s, func(n influxql.Node) influxql.Node {
			k++
			switch x := n.(type) {
			case *influxql.VarRef:
				if (k+op.Arg)%3 == 0 {
					return &influxql.StringLiteral{Val: x.Val}
				}
			case *influxql.Call:
				if (k+op.Arg)%4 == 0 {
					return &influxql.VarRef{Val: x.Name}
				}
			case *influxql.ParenExpr:
				if (k+op.Arg)%2 == 0 {
					return x.Expr
				}
			}
			return n
		})
		return "", nil
	case "RewriteExprIdentity":
		s.Condition = influxql.RewriteExpr(s.Condition, func(e influxql.Expr) influxql.Expr { return e })
		return "", nil
	case "RewriteExprDrop":
		k := 0
		s.Condition = influxql.RewriteExpr(s.Condition, func(e influxql.Expr) influxql.Expr {
			k++
			if be, ok := e.(*influxql.BinaryExpr); ok && be.Op != influxql.AND && be.Op != influxql.OR && (k+op.Arg)%3 == 0 {
				return nil
			}
			return e
		})
		return "", nil
	case "RewriteRegexConditions":
		s.RewriteRegexConditions()
		return "", nil
	case "RewriteDistinct":
		s.RewriteDistinct()
		return "", nil
	case "RewriteTimeFields":
		s.RewriteTimeFields()
		return "", nil
	case "RewriteFields":
		r, err := s.RewriteFields(c.fm)
		if err != nil {
			return "error: " + err.Error(), nil
		}
		if op.Keep && r != nil {
			repl = r
		}
		return core.FP(r), repl
	case "Reduce":
		r := s.Reduce(c.valuer)
		if op.Keep && r != nil {
			repl = r
		}
		return core.FP(r), repl
	case "ReduceExpr":
		return core.Canon(influxql.Reduce(pickExpr(s, op.Arg), c.valuer)), nil
	case "Eval":
		ve := influxql.ValuerEval{Valuer: c.valuer, IntegerFloatDivision: c.env.IntDiv}
		return canonValue(ve.Eval(pickExpr(s, op.Arg))), nil
	case "EvalBool":
		ve := influxql.ValuerEval{Valuer: c.valuer, IntegerFloatDivision: c.env.IntDiv}
		return fmt.Sprint(ve.EvalBool(s.Condition)), nil
	case "EvalFields":
		m := map[string]interface{}{}
		for k, v := range c.env.Valuer.Vars {
			if x, ok := v.Value(); ok {
				m[k] = x
			}
		}
		var sb strings.Builder
		for _, f := range s.Fields {
			fmt.Fprintf(&sb, "%s;", canonValue(influxql.Eval(f.Expr, m)))
		}
		fmt.Fprint(&sb, influxql.EvalBool(s.Condition, m))
		return sb.String(), nil
	case "EvalType":
		return influxql.EvalType(pickExpr(s, op.Arg), s.Sources, c.typeMapper()).String(), nil
	case "TypeValuerEval":
		tv := influxql.TypeValuerEval{TypeMapper: c.fm, Sources: s.Sources}
		if c.env.MapperKind == 1 {
			tv.TypeMapper = c.typeMapper()
		}
		if op.Arg%5 == 0 {
			tv.TypeMapper = nil
		}
		t, err := tv.EvalType(pickExpr(s, op.Arg))
		return fmt.Sprint(t, err), nil
	case "ConditionExpr":
		e, tr, err := influxql.ConditionExpr(s.Condition, c.valuer)
		return fmt.Sprint(core.Canon(e), tr.Min.UnixNano(), tr.Max.UnixNano(), err), nil
	case "SetTimeRange":
		a, b := windowFor(op.Arg)
		return fmt.Sprint(s.SetTimeRange(a, b)), nil
	case "GroupByInterval":
		d, err := s.GroupByInterval()
		return fmt.Sprint(d, err), nil
	case "GroupByOffset":
		d, err := s.GroupByOffset()
		return fmt.Sprint(d, err), nil
	case "Normalize":
		d, tags := s.Dimensions.Normalize()
		return fmt.Sprint(d, tags), nil
	case "ColumnNames":
		return fmt.Sprintf("%q", s.ColumnNames()), nil
	case "FieldExprByName":
		names := append(s.Fields.AliasNames(), "host", "t0", "", "time")
		i, e := s.FieldExprByName(names[op.Arg%len(names)])
		return fmt.Sprint(i, core.Canon(e)), nil
	case "Names":
		return fmt.Sprintf("%q", s.Fields.Names()), nil
	case "AliasNames":
		return fmt.Sprintf("%q", s.Fields.AliasNames()), nil
	case "Measurements":
		return fmt.Sprint(len(s.Sources.Measurements())), nil
	case "HasWildcard":
		return fmt.Sprint(s.HasWildcard(), s.HasFieldWildcard(), s.HasDimensionWildcard()), nil
	case "HasTimeExpr":
		return fmt.Sprint(influxql.HasTimeExpr(s.Condition)), nil
	case "ExprNames":
		return fmt.Sprint(influxql.ExprNames(pickExpr(s, op.Arg))), nil
	case "RequiredPrivileges":
		p, err := s.RequiredPrivileges()
		return fmt.Sprint(p, err), nil
	case "MarshalBinary":
		b, err := s.Sources.MarshalBinary()
		if err != nil {
			return "error: " + err.Error(), nil
		}
		var back influxql.Sources
		err = back.UnmarshalBinary(b)
		return fmt.Sprint(len(b), err, back.String()), nil
	case "TimeAscending":
		return fmt.Sprint(s.TimeAscending(), s.TimeFieldName()), nil
	case "ContainsVarRef":
		return fmt.Sprint(influxql.ContainsVarRef(pickExpr(s, op.Arg))), nil
	case "IsSelector":
		return fmt.Sprint(influxql.IsSelector(pickExpr(s, op.Arg))), nil
	case "FieldDimensions":
		f, d, err := influxql.FieldDimensions(s.Sources, c.fm)
		return fmt.Sprint(len(f), len(d), err), nil
	case "BinaryExprName":
		if be, ok := pickExpr(s, op.Arg).(*influxql.BinaryExpr); ok {
			return influxql.BinaryExprName(be), nil
		}
		return "", nil
	case "CloneExpr":
		return core.Canon(influxql.CloneExpr(pickExpr(s, op.Arg))), nil
	case "TimeRangeMethods":
		_, tr, err := influxql.ConditionExpr(s.Condition, c.valuer)
		a, b := windowFor(op.Arg)
		x := tr.Intersect(influxql.TimeRange{Min: a, Max: b})
		return fmt.Sprint(err, tr.IsZero(), tr.MinTime().UnixNano(), tr.MaxTime().UnixNano(), tr.MinTimeNano(), tr.MaxTimeNano(), x.MinTimeNano(), x.MaxTimeNano()), nil
	case "PartitionExpr":
		k := 0
		pass, fail, err := influxql.PartitionExpr(influxql.CloneExpr(s.Condition), func(e influxql.Expr) (bool, error) {
			k++
			if (k+op.Arg)%7 == 0 {
				return false, fmt.Errorf("injected: cannot classify %s", e)
			}
			return influxql.HasTimeExpr(e) || (k+op.Arg)%2 == 0, nil
		})
		return fmt.Sprint(core.Canon(pass), core.Canon(fail), err), nil
	case "ConjunctionsRoundTrip":
		parts := influxql.ConjunctionsToExprSlice(influxql.CloneExpr(pickExpr(s, op.Arg)))
		return core.Canon(influxql.ExprsToConjunction(parts...)), nil
	case "SortFields":
		cl := s.Clone()
		sort.Sort(cl.Fields)
		refs := influxql.VarRefs(influxql.ExprNames(pickExpr(s, op.Arg)))
		sort.Sort(refs)
		return cl.Fields.String() + fmt.Sprint(refs.Strings()), nil
	case "ListStrings":
		return s.Sources.String() + "|" + influxql.Measurements(s.Sources.Measurements()).String() + "|" + s.Dimensions.String() + "|" + s.SortFields.String(), nil
	case "MatchSource":
		// IsSystemName and friends on every measurement
		var sb strings.Builder
		for _, m := range s.Sources.Measurements() {
			fmt.Fprint(&sb, influxql.IsSystemName(m.Name), m.String())
		}
		return sb.String(), nil
	}
	return "", nil
}

// canonValue renders an evaluation result without addresses.
func canonValue(v interface{}) string {
	switch x := v.(type) {
	case nil:
		return "<nil>"
	case bool, int64, uint64, int, string, time.Duration:
		return fmt.Sprintf("%T(%v)", x, x)
	case float64:
		return "float64(" + strconv.FormatFloat(x, 'g', -1, 64) + ")"
	case time.Time:
		return fmt.Sprintf("time(%d,%s)", x.UnixNano(), x.Location())
	case *regexp.Regexp:
		if x == nil {
			return "regexp(nil)"
		}
		return "regexp(" + x.String() + ")"
	}
	return fmt.Sprintf("%T", v)
}

type stopVisitor struct{ n, stopAt int }

func (v *stopVisitor) Visit(n influxql.Node) influxql.Visitor {
	v.n++
	if v.stopAt > 0 && v.n%v.stopAt == 0 {
		return nil
	}
	return v
}

func applyStatementOp(st influxql.Statement, op Op) string {
	switch op.Arg % 5 {
	case 0:
		return st.String()
	case 1:
		n := 0
		influxql.WalkFunc(st, func(influxql.Node) { n++ })
		return fmt.Sprint(n)
	case 2:
		p, err := st.RequiredPrivileges()
		return fmt.Sprint(p, err)
	case 3:
		if d, ok := st.(influxql.HasDefaultDatabase); ok {
			return d.DefaultDatabase()
		}
		return ""
	default:
		influxql.RewriteFunc(st, func(n influxql.Node) influxql.Node { return n })
		return st.String()
	}
}

const opBudget = 3000000

func (C13) Exec(pi interface{}) *core.RunResult {
	p := pi.(*C13Plan)
	res := &core.RunResult{}
	st, err := influxql.ParseStatement(p.Text)
	if err != nil {
		// a client that retries: whatever a second parse of the same text accepts is an accepted
		// statement too, and the operations must be total on it
		var st2 influxql.Statement
		var err2 error
		if pan := core.Guard(func() { st2, err2 = influxql.ParseStatement(p.Text) }); pan != nil || err2 != nil || st2 == nil {
			res.Skipped = "text not accepted"
			return res
		}
		res.Probe("accepted-on-retry")
		st = st2
	}
	ctx := newOpCtx(&p.Env)
	var trace strings.Builder
	inplace, odd := false, len(p.Env.MFaults.ErrorAt)+len(p.Env.MFaults.CallTypeErr)+len(p.Env.MFaults.UnknownAt) > 0
	for _, v := range p.Env.Valuer.Vars {
		switch v.Kind {
		case "int64", "float64", "string", "bool", "missing":
		default:
			odd = true
			res.Probe("valuer-odd-kind")
		}
	}
	if strings.Contains(p.Text, "()") {
		res.Probe("zero-arg-call")
	}
	if strings.Contains(p.Text, "time()") || strings.Contains(p.Text, "time(0s") {
		res.Probe("odd-time-dimension")
	}
	sel, isSel := st.(*influxql.SelectStatement)
	if ex, ok := st.(*influxql.ExplainStatement); ok && ex.Statement != nil {
		sel, isSel = ex.Statement, true
	}
	if !isSel {
		res.Probe("non-select")
	}
	for i, op := range p.Ops {
		var result string
		var repl *influxql.SelectStatement
		verifhook.BeginOp(opBudget)
		pan := core.Guard(func() {
			_, isExplain := st.(*influxql.ExplainStatement)
			if isSel && !(isExplain && op.Arg%4 == 0) {
				result, repl = ctx.applySelectOp(sel, op)
			} else {
				// statement-level operations (also on the EXPLAIN wrapper itself)
				result = applyStatementOp(st, op)
			}
		})
		res.Steps += verifhook.EndOp()
		res.Probe("op:" + op.Name)
		if pan != nil {
			name := op.Name
			if !isSel {
				name = fmt.Sprintf("stmt-op-%d", op.Arg%5)
			}
			if pan.Class == "budget" {
				res.Violate("budget:"+name, fmt.Sprintf("operation %s (step %d) did not finish within %d steps\ntext: %s\nops: %s", name, i, opBudget, p.Text, opsString(p.Ops[:i+1])))
			} else {
				res.Violate(pan.Sig(), fmt.Sprintf("operation %s (step %d of the sequence) panicked: %s\nstack: %v\ntext: %s\nops so far: %s\nstatement now: %s", name, i, pan.Msg, pan.Stack, p.Text, opsString(p.Ops[:i+1]), safeString(st)))
			}
			break // the statement may be half rewritten: later steps would only echo this failure
		}
		switch op.Name {
		case "RewriteRegexConditions", "RewriteDistinct", "RewriteTimeFields", "SetTimeRange", "RewriteReplace", "RewriteExprDrop":
			inplace = true
		}
		if repl != nil {
			sel = repl
			res.Probe("kept-result")
			inplace = true
		}
		trace.WriteString(op.Name + "=" + result + "\n")
	}
	for k, v := range ctx.mapper.Fired {
		for i := 0; i < v; i++ {
			res.Fault(k)
		}
		res.Probe("mapper-fault")
	}
	res.Nontrivial = len(p.Ops) >= 2 && (inplace || odd)
	res.Trace = core.Hash64(trace.String())
	res.States = []uint64{core.Hash64(shapeOf(core.FP(st)))}
	return res
}

func safeString(st influxql.Statement) (s string) {
	defer func() {
		if recover() != nil {
			s = "<String() panics>"
		}
	}()
	return st.String()
}

func opsString(ops []Op) string {
	var b []string
	for _, o := range ops {
		s := o.Name
		if o.Keep {
			s += "(keep)"
		}
		b = append(b, fmt.Sprintf("%s#%d", s, o.Arg))
	}
	return strings.Join(b, " → ")
}

func shrinkEnv(env OpEnv) []OpEnv {
	var out []OpEnv
	if len(env.MFaults.ErrorAt)+len(env.MFaults.CallTypeErr)+len(env.MFaults.UnknownAt) > 0 || env.MFaults.NilMaps {
		e := env
		e.MFaults = simschema.MapperFaults{}
		out = append(out, e)
	}
	if len(env.Schema.Measurements) > 0 {
		e := env
		e.Schema = gen.Schema{}
		out = append(out, e)
	}
	if len(env.Valuer.Vars) > 0 {
		e := env
		e.Valuer.Vars = nil
		out = append(out, e)
		var keys []string
		for k := range env.Valuer.Vars {
			keys = append(keys, k)
		}
		sortStringsInPlace(keys)
		for _, k := range keys {
			e := env
			e.Valuer.Vars = map[string]simschema.VarVal{}
			for k2, v := range env.Valuer.Vars {
				if k2 != k {
					e.Valuer.Vars[k2] = v
				}
			}
			out = append(out, e)
		}
	}
	if env.Valuer.Zone != "" {
		e := env
		e.Valuer.Zone = ""
		out = append(out, e)
	}
	return out
}

func (C13) Shrink(pi interface{}) []interface{} {
	p := pi.(*C13Plan)
	var out []interface{}
	cp := func() *C13Plan {
		q := &C13Plan{}
		b, _ := json.Marshal(p)
		_ = json.Unmarshal(b, q)
		return q
	}
	for i := range p.Ops {
		q := cp()
		q.Ops = append(q.Ops[:i:i], q.Ops[i+1:]...)
		out = append(out, q)
	}
	for _, e := range shrinkEnv(p.Env) {
		q := cp()
		q.Env = e
		out = append(out, q)
	}
	for _, t := range gen.ShrinkText(p.Text) {
		q := cp()
		q.Text = t
		out = append(out, q)
	}
	return out
}

func sortStringsInPlace(a []string) {
	for i := 1; i < len(a); i++ {
		for j := i; j > 0 && a[j] < a[j-1]; j-- {
			a[j], a[j-1] = a[j-1], a[j]
		}
	}
}
