package engines

import (
	"encoding/json"
	"fmt"
	"strings"

	"github.com/influxdata/influxql"
	"github.com/influxdata/influxql/verifhook"

	"verifsim/core"
	"verifsim/gen"
	"verifsim/simschema"
)

// C12 — schemasim: RewriteFields under every map-iteration order, a failing schema service, and
// refinement of a reference expansion (DESIGN.md §4 C12).

type C12Plan struct {
	Text     string                  `json:"text"`
	Schema   gen.Schema              `json:"schema"`
	Faults   simschema.MapperFaults  `json:"faults"`
	Orders   []verifhook.OrderPolicy `json:"orders"`
	PermBudget int                   `json:"perm_budget"` // how many explicit permutations (n<=4 sites) to run
	// History: statements expanded earlier against the same schema service (which answers from
	// stored maps): the result must depend only on statement and schema, not on what ran before
	History []string `json:"history,omitempty"`
}

type C12 struct{}

func (C12) Meta() core.Meta {
	return core.Meta{
		Property: "C12", Engine: "schemasim", Level: "exploration",
		Rule: "A case = (generated SELECT text, generated schema, mapper fault schedule, set of map-iteration-order policies). RewriteFields runs once per policy on a fresh parse against the simulated schema service. Non-trivial = the statement contains a wildcard or regex in fields or GROUP BY, and either >=2 keys were seen at some map-range site or a mapper fault fired. Distinct = distinct plan hash.",
		Assumptions: []string{
			"the parser builds the right input AST (C01, not under test here)",
			"the call-support table of the model (string/boolean/unsigned columns per function) is a transcription of the InfluxQL function reference",
			"map-order policies asc/desc/rotations/shuffles (+ all n! orders at sites with n<=4) are a superset of what the Go runtime produces",
			"corners the property text does not settle are checked for determinism only (listed as model-unsettled:* probes)",
		},
		Real:       []string{"influxql parser, Clone, RewriteFields, FieldDimensions, EvalType, WalkFunc (instrumented copy of the working tree)", "regexp, sort, fmt"},
		Stub:       []string{"meta store / shard mapper (simschema.Mapper)", "Go map iteration order (verifhook.MapKeys)"},
		ProbeNames: []string{"model-full", "order-site-multi", "perm-enumerated", "subquery", "call-wildcard", "dim-wildcard", "type-conflict", "tag-shadows-field", "empty-schema", "fault-in-subquery", "history"},
		FaultNames: []string{"mapper-error", "nil-maps", "stored-maps"},
	}
}

func (C12) Runs(tier string) uint64 {
	if tier == "thorough" {
		return 3000000
	}
	return 160000
}

func (C12) NewPlan(r *core.Rand, tier string, i uint64) interface{} {
	p := &C12Plan{}
	o := gen.Opts{MaxDepth: r.Weighted([]int{4, 3, 2, 1}), Wild: r.Range(3, 10), Odd: r.Weighted([]int{5, 2, 1, 1}), NoRegexSrc: r.Chance(4, 5), SafeNames: r.Chance(1, 2)}
	p.Text = gen.Select(r, o, 0)
	p.Schema = gen.GenSchema(r)
	// fault stratum: 1 in 4 runs
	if r.Chance(1, 4) {
		switch r.Intn(3) {
		case 0:
			p.Faults.ErrorAt = []int{r.Intn(4)}
		case 1:
			p.Faults.NilMaps = true
		case 2:
			p.Faults.ErrorAt = []int{r.Intn(3), 3 + r.Intn(3)}
		}
	}
	if r.Chance(1, 5) && len(p.Faults.ErrorAt) == 0 {
		p.Faults.StoredMaps = true
		ho := gen.Opts{MaxDepth: 1, Wild: 10, NoRegexSrc: true, SafeNames: o.SafeNames}
		for k := r.Range(1, 2); k > 0; k-- {
			p.History = append(p.History, gen.Select(r, ho, 0))
		}
	}
	p.Orders = []verifhook.OrderPolicy{
		{Kind: verifhook.OrderAsc},
		{Kind: verifhook.OrderDesc},
		{Kind: verifhook.OrderRot, Arg: 1},
		{Kind: verifhook.OrderRot, Arg: uint64(r.Range(2, 5))},
		{Kind: verifhook.OrderShuffle, Arg: r.U64()},
		{Kind: verifhook.OrderShuffle, Arg: r.U64()},
	}
	if tier == "thorough" {
		p.PermBudget = 60
	} else {
		p.PermBudget = 8
	}
	return p
}

func (C12) Decode(b []byte) (interface{}, error) {
	p := &C12Plan{}
	return p, json.Unmarshal(b, p)
}

type c12out struct {
	fp     string
	fields []string
	dims   []string
	err    string
	log    string
	pan    *core.PanicInfo
	recvChanged string
	fired  map[string]int
	steps  int64
	stored string
	histCalls int
}

func runRewrite(text string, sc gen.Schema, f simschema.MapperFaults, pol verifhook.OrderPolicy, history ...string) (*c12out, bool) {
	stmt0, err := influxql.ParseStatement(text)
	if err != nil {
		return nil, false
	}
	stmt, ok := stmt0.(*influxql.SelectStatement)
	if !ok {
		return nil, false
	}
	out := &c12out{}
	m := simschema.NewMapper(sc, f)
	verifhook.SetOrder(pol)
	for _, h := range history {
		if hs, err := influxql.ParseStatement(h); err == nil {
			if sel, ok := hs.(*influxql.SelectStatement); ok {
				verifhook.BeginOp(2000000)
				core.Guard(func() { _, _ = sel.RewriteFields(m) })
				verifhook.EndOp()
			}
		}
	}
	m.Log = nil
	out.histCalls = m.ResetCalls()
	before := core.Lines(stmt)
	verifhook.BeginOp(2000000)
	var res *influxql.SelectStatement
	var rerr error
	out.pan = core.Guard(func() { res, rerr = stmt.RewriteFields(m) })
	out.steps = verifhook.EndOp()
	verifhook.SetOrder(verifhook.OrderPolicy{})
	after := core.Lines(stmt)
	out.recvChanged = core.Diff(before, after)
	out.log = m.LogString()
	out.fired = m.Fired
	out.stored = m.StoredDiff()
	if rerr != nil {
		out.err = rerr.Error()
		if res != nil {
			out.err += " (with non-nil statement)"
		}
	} else if res != nil {
		out.fp = core.FP(res)
		for _, fl := range res.Fields {
			out.fields = append(out.fields, fl.Expr.String())
		}
		for _, d := range res.Dimensions {
			out.dims = append(out.dims, d.String())
		}
	} else if out.pan == nil {
		out.err = "<nil statement and nil error>"
	}
	return out, true
}

func sameOut(a, b *c12out) string {
	switch {
	case (a.pan == nil) != (b.pan == nil):
		return "panic on one side only"
	case a.err != b.err:
		return fmt.Sprintf("error %q vs %q", a.err, b.err)
	case a.fp != b.fp:
		return "result: " + core.Diff(strings.Split(a.fp, "\n"), strings.Split(b.fp, "\n"))
	case a.log != b.log:
		return fmt.Sprintf("mapper calls %q vs %q", a.log, b.log)
	}
	return ""
}

func matchExpected(exp, obs []string) string {
	exp, obs = canonPairs(exp), canonPairs(obs)
	if len(exp) != len(obs) {
		return fmt.Sprintf("expected %d entries %q, observed %d %q", len(exp), exp, len(obs), obs)
	}
	name := func(s string) string {
		if k := strings.LastIndex(s, "::"); k > 0 {
			return s[:k]
		}
		return s
	}
	// inside a run of same-name columns an undecided type ("::?") makes the order of the run
	// undecided too: compare names only there
	loose := make([]bool, len(exp))
	for i := 0; i < len(exp); {
		j := i + 1
		for j < len(exp) && name(exp[j]) == name(exp[i]) {
			j++
		}
		any := false
		for k := i; k < j; k++ {
			if strings.HasSuffix(exp[k], "::?") {
				any = true
			}
		}
		for k := i; k < j; k++ {
			loose[k] = any
		}
		i = j
	}
	for i := range exp {
		e, o := exp[i], obs[i]
		if loose[i] {
			e, o = name(e), name(o)
		}
		if e != o {
			return fmt.Sprintf("entry %d: expected %s, observed %s (all expected %q, observed %q)", i, exp[i], obs[i], exp, obs)
		}
	}
	return ""
}

func factorial(n int) uint64 {
	f := uint64(1)
	for i := 2; i <= n; i++ {
		f *= uint64(i)
	}
	return f
}

func (C12) Exec(pi interface{}) *core.RunResult {
	p := pi.(*C12Plan)
	res := &core.RunResult{}
	if len(p.Orders) == 0 {
		p.Orders = []verifhook.OrderPolicy{{Kind: verifhook.OrderAsc}}
	}
	verifhook.ResetMapStats()
	base, ok := runRewrite(p.Text, p.Schema, p.Faults, p.Orders[0], p.History...)
	if !ok {
		res.Skipped = "text is not an accepted SELECT"
		return res
	}
	stats := verifhook.MapSiteStats()
	res.Steps += base.steps
	for k, v := range base.fired {
		for i := 0; i < v; i++ {
			res.Fault(k)
		}
	}
	multi := false
	for _, s := range stats {
		if s.Multi > 0 {
			multi = true
		}
	}
	if multi {
		res.Probe("order-site-multi")
	}
	if base.pan != nil {
		res.Violate(base.pan.Sig(), fmt.Sprintf("RewriteFields panicked: %s\nstack: %v\ntext: %s", base.pan.Msg, base.pan.Stack, p.Text))
	}
	if len(p.History) > 0 {
		res.Probe("history")
	}
	if base.stored != "" {
		res.Violate("service-maps-modified", "the schema service answers from maps it keeps; after the calls they no longer match its schema: "+base.stored+"\ntext: "+p.Text+"\nhistory: "+strings.Join(p.History, " ;; "))
	}
	if base.recvChanged != "" {
		res.Violate("receiver-mutated", "RewriteFields changed its receiver: "+base.recvChanged+"\ntext: "+p.Text)
	}

	// 1. order independence
	for _, pol := range p.Orders[1:] {
		o, _ := runRewrite(p.Text, p.Schema, p.Faults, pol, p.History...)
		res.Steps += o.steps
		if d := sameOut(base, o); d != "" {
			res.Violate("order-dependence", fmt.Sprintf("result differs between map orders %+v and %+v: %s\ntext: %s", p.Orders[0], pol, d, p.Text))
			break
		}
	}
	// explicit permutations at small sites
	budget := p.PermBudget
	for site, s := range stats {
		if s.MaxN < 2 || s.MaxN > 4 || budget <= 0 {
			continue
		}
		n := factorial(s.MaxN)
		for k := uint64(1); k < n && budget > 0; k++ {
			budget--
			pol := verifhook.OrderPolicy{Kind: verifhook.OrderPermAt, Arg: k, Site: int32(site)}
			o, _ := runRewrite(p.Text, p.Schema, p.Faults, pol, p.History...)
			res.Steps += o.steps
			res.Probe("perm-enumerated")
			if d := sameOut(base, o); d != "" {
				res.Violate("order-dependence", fmt.Sprintf("result differs between ascending order and permutation %d at map site %d (%s): %s\ntext: %s", k, site, siteName(site), d, p.Text))
				break
			}
		}
	}

	// 2/3. refinement of the reference expansion
	stmt0, _ := influxql.ParseStatement(p.Text)
	stmt := stmt0.(*influxql.SelectStatement)
	hasWild := false
	influxql.WalkFunc(stmt, func(n influxql.Node) {
		switch x := n.(type) {
		case *influxql.Wildcard:
			hasWild = true
		case *influxql.RegexLiteral:
			_ = x
		case *influxql.SubQuery:
			res.Probe("subquery")
		}
	})
	for _, f := range stmt.Fields {
		if hasWildNode(f.Expr) {
			hasWild = true
			if _, ok := f.Expr.(*influxql.Call); ok {
				res.Probe("call-wildcard")
			}
		}
	}
	for _, d := range stmt.Dimensions {
		switch d.Expr.(type) {
		case *influxql.Wildcard, *influxql.RegexLiteral:
			hasWild = true
			res.Probe("dim-wildcard")
		}
	}
	schemaProbes(p.Schema, res)
	faultFired := len(base.fired) > 0 && base.fired["mapper-error"] > 0
	if faultFired {
		// narrow relaxation: failing is allowed, a silently partial expansion is not
		if base.err == "" && base.pan == nil {
			clean, _ := runRewrite(p.Text, p.Schema, simschema.MapperFaults{NilMaps: p.Faults.NilMaps}, p.Orders[0], p.History...)
			if clean.fp != base.fp {
				res.Violate("partial-under-fault", fmt.Sprintf("mapper failed, RewriteFields returned nil error and a statement that differs from the fault-free expansion: %s\ntext: %s", core.Diff(strings.Split(clean.fp, "\n"), strings.Split(base.fp, "\n")), p.Text))
			}
		} else if base.err != "" && strings.Contains(base.err, "non-nil statement") {
			res.Violate("partial-under-fault", "mapper failed and RewriteFields returned both a statement and an error\ntext: "+p.Text)
		}
		if strings.Count(base.log, "FD:") > 1 {
			res.Probe("fault-in-subquery")
		}
	} else if base.pan == nil {
		m := modelRewrite(stmt, p.Schema)
		switch {
		case m.Unsettled != "":
			res.Probe("model-unsettled:" + m.Unsettled)
		case m.Err:
			res.Probe("model-full")
			if base.err == "" {
				res.Violate("model-mismatch:error-expected", fmt.Sprintf("a tag wildcard inside a call must be an error, got fields %q\ntext: %s", base.fields, p.Text))
			}
		default:
			res.Probe("model-full")
			if base.err != "" {
				res.Violate("model-mismatch:unexpected-error", fmt.Sprintf("RewriteFields failed with %q where the reference expansion is %q GROUP BY %q\ntext: %s\nschema: %s", base.err, m.Fields, m.Dims, p.Text, schemaString(p.Schema)))
			} else {
				if d := matchExpected(m.Fields, base.fields); d != "" {
					res.Violate("model-mismatch:fields", fmt.Sprintf("%s\ntext: %s\nschema: %s", d, p.Text, schemaString(p.Schema)))
				}
				if d := matchExpected(m.Dims, base.dims); d != "" {
					res.Violate("model-mismatch:dimensions", fmt.Sprintf("%s\ntext: %s\nschema: %s", d, p.Text, schemaString(p.Schema)))
				}
			}
		}
	}
	res.Nontrivial = hasWild && (multi || len(base.fired) > 0)
	res.Trace = core.Hash64(base.fp + "|" + base.err + "|" + base.log)
	res.States = []uint64{core.Hash64(strings.Join(base.fields, ",") + "|" + strings.Join(base.dims, ","))}
	return res
}

func siteName(i int) string {
	if i >= 0 && i < len(verifhook.MapSiteNames) {
		return verifhook.MapSiteNames[i]
	}
	return "?"
}

func schemaString(s gen.Schema) string {
	b, _ := json.Marshal(s)
	return string(b)
}

func schemaProbes(s gen.Schema, res *core.RunResult) {
	if len(s.Measurements) == 0 {
		res.Probe("empty-schema")
	}
	types := map[string]string{}
	for _, m := range s.Measurements {
		for k, t := range m.Fields {
			if o, ok := types[k]; ok && o != t {
				res.Probe("type-conflict")
			}
			types[k] = t
			for _, tg := range m.Tags {
				if tg == k {
					res.Probe("tag-shadows-field")
				}
			}
		}
	}
}

func (C12) Shrink(pi interface{}) []interface{} {
	p := pi.(*C12Plan)
	var out []interface{}
	cp := func() *C12Plan {
		q := &C12Plan{}
		b, _ := json.Marshal(p)
		_ = json.Unmarshal(b, q)
		return q
	}
	if len(p.Faults.ErrorAt) > 0 || p.Faults.NilMaps {
		q := cp()
		q.Faults = simschema.MapperFaults{}
		out = append(out, q)
	}
	if p.PermBudget > 0 {
		q := cp()
		q.PermBudget = 0
		out = append(out, q)
	}
	for i := range p.History {
		q := cp()
		q.History = append(q.History[:i:i], q.History[i+1:]...)
		out = append(out, q)
	}
	for i, h := range p.History {
		for k, t := range gen.ShrinkText(h) {
			if k > 60 {
				break
			}
			q := cp()
			q.History[i] = t
			out = append(out, q)
		}
	}
	if len(p.Orders) > 2 {
		for i := 1; i < len(p.Orders); i++ {
			q := cp()
			q.Orders = []verifhook.OrderPolicy{p.Orders[0], p.Orders[i]}
			out = append(out, q)
		}
	}
	for i := range p.Schema.Measurements {
		q := cp()
		q.Schema.Measurements = append(q.Schema.Measurements[:i], q.Schema.Measurements[i+1:]...)
		out = append(out, q)
	}
	for i, m := range p.Schema.Measurements {
		for k := range sortedKeys(m.Fields) {
			q := cp()
			delete(q.Schema.Measurements[i].Fields, sortedKeys(m.Fields)[k])
			out = append(out, q)
		}
		for k := range m.Tags {
			q := cp()
			t := q.Schema.Measurements[i].Tags
			q.Schema.Measurements[i].Tags = append(t[:k:k], t[k+1:]...)
			out = append(out, q)
		}
	}
	for _, t := range gen.ShrinkText(p.Text) {
		q := cp()
		q.Text = t
		out = append(out, q)
	}
	return out
}

func sortedKeys(m map[string]string) []string {
	var ks []string
	for k := range m {
		ks = append(ks, k)
	}
	for i := 1; i < len(ks); i++ {
		for j := i; j > 0 && ks[j] < ks[j-1]; j-- {
			ks[j], ks[j-1] = ks[j-1], ks[j]
		}
	}
	return ks
}
