package engines

import (
	"encoding/json"
	"fmt"
	"os"
	"os/exec"
	"regexp"
	"sort"
	"strconv"
	"strings"
	"sync"
	"time"

	"github.com/influxdata/influxql"
	"github.com/influxdata/influxql/verifhook"

	"verifsim/core"
	"verifsim/gen"
	"verifsim/simschema"
	"verifsim/simstream"
)

// C17 — schedsim: caller goroutines over the package's process-wide tables and over shared ASTs,
// released one at a time by a plan-driven scheduler; data races judged by the real race detector,
// which does not see the harness handoffs (DESIGN.md §3.3, §4 C17).

type TaskOp struct {
	Kind   string      `json:"kind"` // parse-query parse-stmt parse-expr print-own quote-string quote-ident needs-quotes format-duration parse-duration sanitize lookup language-clone shared
	Text   core.RawStr `json:"text,omitempty"`
	N      int64       `json:"n,omitempty"`
	Shared int         `json:"shared,omitempty"` // which shared AST
	Op     Op          `json:"op,omitempty"`     // shared-AST operation
}

type TaskPlan struct {
	Env OpEnv    `json:"env"`
	Ops []TaskOp `json:"ops"`
}

type PreemptFrac struct {
	Step   int64 `json:"step"` // global step (library function entries summed over tasks) at which to switch
	Choice int   `json:"choice"`
}

type C17Plan struct {
	Shared   []string                `json:"shared"` // texts of the shared ASTs (built before the tasks start)
	// SharedStmt: one more shared object, a statement of any kind (or a multi-statement query),
	// used read-only by "shared-stmt" operations: String, Walk, RequiredPrivileges, DefaultDatabase
	SharedStmt string `json:"shared_stmt,omitempty"`
	Tasks    []TaskPlan              `json:"tasks"`
	Preempts []PreemptFrac           `json:"preempts"`
	// AtomicPreempts: switch at the Nth scheduling point in front of an atomic operation (drawn only
	// when the tree under test has such points)
	AtomicPreempts []verifhook.AtomicPreempt `json:"atomic_preempts,omitempty"`
	First    int                     `json:"first"`
	EndPick  []int                   `json:"end_pick"` // successor choice when a task finishes
	Order    verifhook.OrderPolicy   `json:"order"`
	Hot      bool                    `json:"hot,omitempty"` // one hot operation on (almost) every task
	// TwinFirst: also take the reference results BEFORE the concurrent phase (warms lazily filled
	// state, so only some runs do it) and demand that they agree with those taken after it
	TwinFirst bool `json:"twin_first,omitempty"`
	// FreshTwin: additionally compute the reference results in a brand-new process (nothing any
	// earlier operation of this process left behind can reach it) and compare
	FreshTwin bool `json:"fresh_twin,omitempty"`
	// SharedMapper: all tasks use ONE schema service (as a server's meta client is shared), which
	// answers from maps it keeps; its schema is SharedSchema
	SharedMapper bool       `json:"shared_mapper,omitempty"`
	SharedSchema gen.Schema `json:"shared_schema,omitempty"`
}

type C17 struct{}

func (C17) Meta() core.Meta {
	return core.Meta{
		Property: "C17", Engine: "schedsim", Level: "exploration", NeedsRace: true,
		Rule: "A case = (1-2 shared SELECT ASTs built before the tasks start; 2-6 tasks, each a script of 1-6 operations from two pools: independent work (parse, print, quote, format, sanitize, lookup) and read-only use of a shared AST (print, clone, walk, evaluate, reduce, expand wildcards with a per-task mapper, names, privileges ...); a pre-drawn schedule: first task, up to 12 preemption points placed at library function entries / service callbacks / atomic operations / operation boundaries, successor choices). Tasks are real goroutines released one at a time. Oracles: the Go race detector (harness handoffs hidden from it) reports no race with library frames; every result equals the result of the same call made alone on a fresh parse; no panic or budget overrun that the sequential twin does not show. Non-trivial = at least 2 tasks and at least one context switch inside an operation. Distinct = distinct plan hash; distinct interleavings = distinct (task, site) switch sequences (reported as distinct_states).",
		Assumptions: []string{
			"yield granularity is the library function entry, service callbacks, statements touching sync/atomic or sync.Map, and operation boundaries; interleavings inside standard-library calls are not controlled (the race oracle does not need them, result equality does)",
			"ThreadSanitizer keeps a bounded access history per memory word; a race whose accesses are separated by many accesses to the same word can be missed in one run",
			"library goroutines or channel waits (none today) are outside the scheduler: watchdog, exit 2",
			"GroupByInterval/GroupByOffset on a shared AST and all in-place rewrites are excluded, as the property's anchor says",
		},
		Real:       []string{"influxql (instrumented copy of the working tree, built with -race)", "ThreadSanitizer runtime as the data-race judge", "regexp, strings.Replacer, fmt, time zone cache (race-instrumented std, atomic from the scheduler's point of view)"},
		Stub:       []string{"Go scheduler / goroutine interleaving (plan-driven baton over real goroutines)", "Go map iteration order", "meta store and valuers (per-task stubs; callbacks are yield points)"},
		ProbeNames: []string{"fresh-twin-compared", "twin-before-and-after", "shared-mapper", "switch-inside-op", "switch-in-callback", "shared-op", "independent-op", "all-parse", "all-shared", "hot-op", "tasks>=4", "preempt>=4", "twin-compared"},
		FaultNames: []string{"preemption", "mapper-error"},
	}
}

func (C17) Runs(tier string) uint64 {
	if tier == "thorough" {
		return 1200000
	}
	return 40000
}

var sharedOps = []string{"ConditionExpr", "TimeRangeMethods", "Reduce", "String", "Clone", "CloneExpr", "WalkFunc", "WalkNil", "Eval", "EvalBool", "EvalFields", "Reduce", "ReduceExpr", "RewriteFields", "ConditionExpr", "EvalType", "TypeValuerEval", "FieldDimensions", "ColumnNames", "FieldExprByName", "Names", "AliasNames", "Measurements", "RequiredPrivileges", "HasWildcard", "ExprNames", "HasTimeExpr", "TimeAscending", "ContainsVarRef", "IsSelector", "BinaryExprName", "Normalize", "TimeRangeMethods", "PartitionExpr", "ConjunctionsRoundTrip", "SortFields", "ListStrings"}
var indepKinds = []string{"parse-query", "parse-stmt", "parse-expr", "print-own", "quote-string", "quote-ident", "needs-quotes", "format-duration", "parse-duration", "sanitize", "lookup", "language-clone", "own-settimerange", "own-rewrite", "parse-stream", "shared-stmt"}

// statements whose leading keywords sit at different nodes of the dispatch tree
var nearMissBases = []string{"SELECT v FROM m", "DELETE FROM m", "GRANT ALL TO u", "EXPLAIN SELECT v FROM m", "CREATE DATABASE d", "CREATE USER u WITH PASSWORD 'p'",
	"CREATE RETENTION POLICY rp ON d DURATION 1h REPLICATION 1", "CREATE CONTINUOUS QUERY q ON d BEGIN SELECT mean(v) INTO o FROM m GROUP BY time(1m) END", "CREATE SUBSCRIPTION s ON d.rp DESTINATIONS ALL 'udp://h:9'",
	"SHOW DATABASES", "SHOW USERS", "SHOW TAG KEYS FROM m", "SHOW FIELD KEYS", "SHOW RETENTION POLICIES ON d", "SHOW MEASUREMENT CARDINALITY", "SHOW SERIES EXACT CARDINALITY",
	"DROP DATABASE d", "DROP MEASUREMENT m", "DROP SERIES FROM m", "DROP CONTINUOUS QUERY q ON d", "DROP RETENTION POLICY rp ON d", "DROP SHARD 1", "ALTER RETENTION POLICY rp ON d DEFAULT",
	"REVOKE ALL FROM u", "KILL QUERY 1", "SET PASSWORD FOR u = 'p'", "BEGIN", "END"}

func genTaskOp(r *core.Rand, o gen.Opts, nShared int, pool int, hot *TaskOp) TaskOp {
	if hot != nil && r.Chance(3, 4) {
		return *hot
	}
	shared := nShared > 0 && (pool == 2 || (pool == 0 && r.Chance(1, 2)))
	if shared {
		return TaskOp{Kind: "shared", Shared: r.Intn(nShared), Op: Op{Name: sharedOps[r.Intn(len(sharedOps))], Arg: r.Intn(1000)}}
	}
	t := TaskOp{Kind: indepKinds[r.Intn(len(indepKinds))]}
	idents := []string{"cpu", "my m", "select", "a.b", "host", "from", "time", "x y", "\"q\"", "_ok", "9x", "", "usage_idle", "FIELD", "é"}
	salt := fmt.Sprintf("%x", r.U64()&0xffffff)
	switch t.Kind {
	case "parse-query":
		t.Text = core.RawStr(gen.Query(r, o))
		if r.Chance(1, 3) {
			// a literal no earlier run of this process has seen: lazily filled caches stay cold for it
			t.Text = core.RawStr("SELECT f" + salt + " FROM m WHERE t =~ /" + salt + "/ AND \"i " + salt + "\" = 's" + salt + "'; ") + t.Text
		}
	case "parse-stmt", "print-own":
		t.Text = core.RawStr(gen.Statement(r, o))
		if t.Kind == "parse-stmt" && r.Chance(1, 4) {
			// a near-miss of a statement (mistyped, dropped or repeated leading word): the error
			// paths of the process-wide dispatch tree, usually at the same node in several tasks
			t.Text = core.RawStr(gen.Damage(r, r.Pick(nearMissBases)))
		}
		if r.Chance(1, 6) {
			// an input larger than any internal buffer
			t.Text = core.RawStr(string(t.Text) + " /* " + strings.Repeat("pad "+salt+" ", r.Pick3(500, 1030, 1800)) + "*/")
		}
	case "parse-expr":
		t.Text = core.RawStr(gen.Cond(r, o, 0))
	case "parse-stream":
		// a request body: a reader that is not a strings.Reader, delivering in chunks; sometimes a
		// token soup (rejected inputs exercise the error paths of shared machinery)
		if r.Chance(1, 3) {
			t.Text = core.RawStr(Soup(r, r.Range(3, 14)) + " 'x" + salt + "' " + r.Pick([]string{"'bad\\q'", "\"" + salt + "\"", "region"}))
		} else {
			t.Text = core.RawStr(gen.Query(r, o) + r.Pick([]string{"", " GROUP BY region", ""}))
		}
		t.N = int64(r.Pick3(1, 7, 4096))
	case "shared-stmt":
		t.N = int64(r.Intn(1000))
	case "own-settimerange", "own-rewrite":
		// in-place work on a statement no other task can see
		t.Text = core.RawStr(gen.Select(r, o, 0))
		t.N = int64(r.Intn(1000))
	case "quote-string":
		t.Text = core.RawStr(r.Pick([]string{"a", "it's", "a\\b", "x\ny", "", "select"}))
	case "quote-ident", "needs-quotes", "lookup":
		t.Text = core.RawStr(r.Pick(idents))
		if r.Chance(1, 4) {
			t.Text += core.RawStr(r.Pick([]string{"", " ", "."}) + salt)
		}
		if r.Chance(1, 3) {
			t.Text += core.RawStr("\x1f" + r.Pick(idents)) // second segment for QuoteIdent
		}
	case "format-duration":
		t.N = []int64{0, 1, 1000, 1e9, 90e9, 3600e9, 86400e9, 7 * 86400e9, 1500e6, -5e9}[r.Intn(10)]
	case "parse-duration":
		t.Text = core.RawStr(r.Pick([]string{"10s", "1h30m", "5µ", "1w", "1u", "bad", "", "9999999999999h", "1ns"}))
	case "sanitize":
		t.Text = core.RawStr(r.Pick([]string{"CREATE USER u WITH PASSWORD 'secret'", "SET PASSWORD FOR u = 'p w'", "SELECT 1; create user \"a b\" with password 'x''y'", "SELECT * FROM cpu", "set password for u='q'"}))
	}
	return t
}

func (C17) NewPlan(r *core.Rand, tier string, i uint64) interface{} {
	p := &C17Plan{}
	o := gen.Opts{MaxDepth: r.Intn(3), Wild: r.Range(2, 8), Odd: r.Range(0, 4), Into: true, TimeCond: true, AllClauses: r.Chance(1, 2)}
	nShared := r.Weighted([]int{1, 5, 2})
	for k := 0; k < nShared; k++ {
		p.Shared = append(p.Shared, gen.Select(r, o, 0))
	}
	if r.Chance(1, 3) {
		p.SharedStmt = gen.Query(r, o)
	}
	nTasks := r.Weighted([]int{0, 0, 5, 4, 3, 2, 2})
	pool := r.Weighted([]int{5, 2, 3, 2}) // mixed, all independent, all shared, hot op
	var hot *TaskOp
	if pool == 3 {
		h := genTaskOp(r, o, nShared, r.Intn(3), nil)
		hot = &h
		p.Hot = true
	}
	for t := 0; t < nTasks; t++ {
		tp := TaskPlan{Env: genEnv(r)}
		tp.Env.Valuer.Yield = true
		tp.Env.MFaults.YieldInCall = true
		tp.Env.MFaults.UnknownAt, tp.Env.MFaults.CallTypeErr = nil, nil
		for k := r.Range(1, 6); k > 0; k-- {
			tp.Ops = append(tp.Ops, genTaskOp(r, o, nShared, pool, hot))
		}
		p.Tasks = append(p.Tasks, tp)
		p.EndPick = append(p.EndPick, r.Intn(8))
	}
	p.TwinFirst = r.Chance(1, 3)
	den := freshTwinDen
	if den == 0 {
		den = 200 // quick: a fresh process costs ~0.3 s under the race detector
		if tier == "thorough" {
			den = 100
		}
	}
	p.FreshTwin = r.Chance(1, den)
	if r.Chance(1, 4) {
		p.SharedMapper = true
		p.SharedSchema = gen.GenSchema(r)
	}
	p.First = r.Intn(nTasks)
	for k := r.Weighted([]int{1, 2, 3, 3, 3, 2, 2, 1, 1, 1, 1, 1, 1}); k > 0; k-- {
		// log-uniform over 1..30000 steps: operations take between a handful and thousands of steps
		st := int64(1)
		for e := r.Float() * 4.5; e > 0; e -= 0.25 {
			st = st*178/100 + 1
		}
		p.Preempts = append(p.Preempts, PreemptFrac{Step: st + int64(r.Intn(7)), Choice: r.Intn(8)})
	}
	sort.Slice(p.Preempts, func(a, b int) bool { return p.Preempts[a].Step < p.Preempts[b].Step })
	if verifhook.AtomicSiteCount() > 0 && r.Chance(2, 3) {
		for k := r.Range(1, 3); k > 0; k-- {
			n := int64(1)
			for e := r.Float() * 2.5; e > 0; e -= 0.25 {
				n = n*178/100 + 1
			}
			p.AtomicPreempts = append(p.AtomicPreempts, verifhook.AtomicPreempt{N: n + int64(r.Intn(4)), Choice: r.Intn(8)})
		}
		sort.Slice(p.AtomicPreempts, func(a, b int) bool { return p.AtomicPreempts[a].N < p.AtomicPreempts[b].N })
	}
	p.Order = []verifhook.OrderPolicy{{Kind: verifhook.OrderAsc}, {Kind: verifhook.OrderDesc}, {Kind: verifhook.OrderShuffle, Arg: r.U64()}}[r.Intn(3)]
	return p
}

func (C17) Decode(b []byte) (interface{}, error) {
	p := &C17Plan{}
	return p, json.Unmarshal(b, p)
}

// runTaskOp executes one operation of a task and returns a canonical result.
func runTaskOp(op *TaskOp, ctx *opCtx, shared []*influxql.SelectStatement, sharedQ *influxql.Query) string {
	switch op.Kind {
	case "shared-stmt":
		if sharedQ == nil {
			return ""
		}
		switch op.N % 5 {
		case 0:
			return sharedQ.String()
		case 1:
			n := 0
			influxql.WalkFunc(sharedQ, func(influxql.Node) { n++ })
			return fmt.Sprint(n)
		case 2:
			var sb strings.Builder
			for _, st := range sharedQ.Statements {
				p, err := st.RequiredPrivileges()
				fmt.Fprint(&sb, p, err, ";")
			}
			return sb.String()
		case 3:
			var sb strings.Builder
			for _, st := range sharedQ.Statements {
				if d, ok := st.(influxql.HasDefaultDatabase); ok {
					sb.WriteString(d.DefaultDatabase() + ";")
				}
			}
			return sb.String()
		default:
			return sharedQ.Statements.String() + influxql.Sanitize(sharedQ.String())
		}
	case "shared":
		if op.Shared < len(shared) && shared[op.Shared] != nil {
			o := op.Op
			o.Keep = false
			r, _ := ctx.applySelectOp(shared[op.Shared], o)
			return r
		}
		return ""
	case "parse-query":
		q, err := influxql.ParseQuery(string(op.Text))
		if err != nil {
			return "error: " + err.Error()
		}
		return q.String()
	case "parse-stmt":
		s, err := influxql.ParseStatement(string(op.Text))
		if err != nil {
			return "error: " + err.Error()
		}
		return core.FP(s)
	case "print-own":
		s, err := influxql.ParseStatement(string(op.Text))
		if err != nil {
			return "error: " + err.Error()
		}
		return s.String()
	case "parse-stream":
		chunk := int(op.N)
		if chunk <= 0 {
			chunk = 7
		}
		q, err := influxql.NewParser(simstream.New([]byte(op.Text), simstream.Plan{Cut: -1, Chunks: []int{chunk}})).ParseQuery()
		if err != nil {
			return "error: " + err.Error()
		}
		return q.String()
	case "parse-expr":
		e, err := influxql.ParseExpr(string(op.Text))
		if err != nil {
			return "error: " + err.Error()
		}
		return e.String()
	case "quote-string":
		return influxql.QuoteString(string(op.Text))
	case "quote-ident":
		return influxql.QuoteIdent(strings.Split(string(op.Text), "\x1f")...)
	case "needs-quotes":
		return fmt.Sprint(influxql.IdentNeedsQuotes(strings.Split(string(op.Text), "\x1f")[0]))
	case "lookup":
		return fmt.Sprint(int(influxql.Lookup(strings.Split(string(op.Text), "\x1f")[0])))
	case "format-duration":
		return influxql.FormatDuration(time.Duration(op.N))
	case "parse-duration":
		d, err := influxql.ParseDuration(string(op.Text))
		return fmt.Sprint(int64(d), err)
	case "sanitize":
		return influxql.Sanitize(string(op.Text))
	case "language-clone":
		c := influxql.Language.Clone()
		return fmt.Sprint(c != nil)
	case "own-settimerange":
		st, err := influxql.ParseStatement(string(op.Text))
		if err != nil {
			return "error: " + err.Error()
		}
		sel, ok := st.(*influxql.SelectStatement)
		if !ok {
			return ""
		}
		// a continuous query's life: a window, the same window again (duplicate tick), the next one
		a, b := windowFor(int(op.N))
		e1 := sel.SetTimeRange(a, b)
		s1 := sel.String()
		e2 := sel.SetTimeRange(a, b)
		s2 := sel.String()
		a3, b3 := windowFor(int(op.N) + 7)
		e3 := sel.SetTimeRange(a3, b3)
		return fmt.Sprint(e1, e2, e3, " ", s1, " | ", s2, " | ", sel.String())
	case "own-rewrite":
		st, err := influxql.ParseStatement(string(op.Text))
		if err != nil {
			return "error: " + err.Error()
		}
		sel, ok := st.(*influxql.SelectStatement)
		if !ok {
			return ""
		}
		sel.RewriteRegexConditions()
		sel.RewriteDistinct()
		sel.RewriteTimeFields()
		return sel.String()
	}
	return ""
}

type opResult struct {
	out   string
	pan   *core.PanicInfo
	steps int64
}

func parseSharedQuery(text string) *influxql.Query {
	if text == "" {
		return nil
	}
	q, err := influxql.ParseQuery(text)
	if err != nil {
		return nil
	}
	return q
}

func parseShared(texts []string) []*influxql.SelectStatement {
	out := make([]*influxql.SelectStatement, len(texts))
	for i, t := range texts {
		if st, err := influxql.ParseStatement(t); err == nil {
			if s, ok := st.(*influxql.SelectStatement); ok {
				out[i] = s
			}
		}
	}
	return out
}

// ---- race report capture ---------------------------------------------------------------------------

var raceLogOff int64

func raceLogPath() string {
	for _, kv := range strings.Fields(os.Getenv("GORACE")) {
		if strings.HasPrefix(kv, "log_path=") {
			return fmt.Sprintf("%s.%d", strings.TrimPrefix(kv, "log_path="), os.Getpid())
		}
	}
	return ""
}

func readNewRaceLog() string {
	p := raceLogPath()
	if p == "" {
		return ""
	}
	f, err := os.Open(p)
	if err != nil {
		return ""
	}
	defer f.Close()
	st, err := f.Stat()
	if err != nil || st.Size() <= raceLogOff {
		return ""
	}
	buf := make([]byte, st.Size()-raceLogOff)
	n, _ := f.ReadAt(buf, raceLogOff)
	raceLogOff += int64(n)
	return string(buf[:n])
}

var reAccess = regexp.MustCompile(`(?m)^(Previous )?(atomic )?([Rr]ead|[Ww]rite) at 0x[0-9a-f]+ by (main )?goroutine`)

type raceReport struct {
	sig    string
	text   string
	libA   bool
	libB   bool
}

// parseRaceReports splits a race log into reports and reduces each to a signature made of the
// innermost library frame and access kind of both stacks.
func parseRaceReports(log string) []raceReport {
	var out []raceReport
	for _, rep := range strings.Split(log, "==================") {
		if !strings.Contains(rep, "WARNING: DATA RACE") {
			continue
		}
		locs := reAccess.FindAllStringSubmatchIndex(rep, -1)
		if len(locs) < 2 {
			out = append(out, raceReport{sig: "race{unparsed}", text: rep})
			continue
		}
		var sides []string
		var libs []bool
		for k := 0; k < 2; k++ {
			start := locs[k][0]
			end := len(rep)
			if k+1 < len(locs) {
				end = locs[k+1][0]
			} else if i := strings.Index(rep[start:], "\nGoroutine "); i >= 0 {
				end = start + i
			}
			block := rep[start:end]
			kind := "read"
			if strings.Contains(strings.ToLower(block[:strings.Index(block, " at ")]), "write") {
				kind = "write"
			}
			fn := ""
			for _, line := range strings.Split(block, "\n")[1:] {
				l := strings.TrimSpace(line)
				if strings.HasPrefix(l, "github.com/influxdata/influxql.") {
					fn = strings.TrimPrefix(l, "github.com/influxdata/influxql.")
					if i := strings.LastIndex(fn, "("); i > 0 {
						fn = fn[:i]
					}
					break
				}
			}
			libs = append(libs, fn != "")
			if fn == "" {
				fn = "<no library frame>"
			}
			sides = append(sides, fn+"/"+kind)
		}
		sort.Strings(sides)
		out = append(out, raceReport{sig: "race{" + sides[0] + ", " + sides[1] + "}", text: rep, libA: libs[0], libB: libs[1]})
	}
	return out
}

// ---- execution ---------------------------------------------------------------------------------------

func (C17) Exec(pi interface{}) *core.RunResult {
	p := pi.(*C17Plan)
	res := &core.RunResult{}
	n := len(p.Tasks)
	if n < 1 {
		res.Skipped = "no tasks"
		return res
	}
	if n > verifhook.MaxTasks {
		n = verifhook.MaxTasks
		p.Tasks = p.Tasks[:n]
	}
	verifhook.SetOrder(p.Order)
	defer verifhook.SetOrder(verifhook.OrderPolicy{})

	runTwin := func() ([][]opResult, int64) {
		twin := make([][]opResult, n)
		var total int64
		for t := 0; t < n; t++ {
			twin[t] = make([]opResult, len(p.Tasks[t].Ops))
			ctx := newOpCtx(&p.Tasks[t].Env)
			if p.SharedMapper {
				ctx.fm = simschema.NewFrozenMapper(p.SharedSchema, true) // "alone": its own, untouched service
			}
			for k := range p.Tasks[t].Ops {
				sh := parseShared(p.Shared)
				op := &p.Tasks[t].Ops[k]
				var out string
				verifhook.BeginOp(opBudget)
				pan := core.Guard(func() { out = runTaskOp(op, ctx, sh, parseSharedQuery(p.SharedStmt)) })
				steps := verifhook.EndOp()
				twin[t][k] = opResult{out, pan, steps}
				total += steps + 1
			}
		}
		return twin, total
	}
	var twinBefore [][]opResult
	if p.TwinFirst {
		var tb int64
		twinBefore, tb = runTwin()
		res.Steps += tb
		res.Probe("twin-before-and-after")
	}

	// concurrent phase
	shared := parseShared(p.Shared)
	sharedQ := parseSharedQuery(p.SharedStmt)
	var pre []verifhook.Preempt
	for _, f := range p.Preempts {
		pre = append(pre, verifhook.Preempt{Step: f.Step, Choice: f.Choice})
	}
	sort.Slice(pre, func(a, b int) bool { return pre[a].Step < pre[b].Step })
	conc := make([][]opResult, n)
	ctxs := make([]*opCtx, n)
	var frozen *simschema.FrozenMapper
	if p.SharedMapper {
		frozen = simschema.NewFrozenMapper(p.SharedSchema, true)
		res.Probe("shared-mapper")
	}
	for t := 0; t < n; t++ {
		conc[t] = make([]opResult, len(p.Tasks[t].Ops))
		ctxs[t] = newOpCtx(&p.Tasks[t].Env)
		if frozen != nil {
			ctxs[t].fm = frozen
		}
	}
	readNewRaceLog() // drop anything older
	racesBefore := verifhook.RaceErrors()
	verifhook.SchedBegin(n, pre)
	verifhook.SchedAtomicPlan(p.AtomicPreempts)
	var wg sync.WaitGroup
	for t := 0; t < n; t++ {
		wg.Add(1)
		go func(t int) {
			defer wg.Done()
			verifhook.SchedTaskStart(t)
			for k := range p.Tasks[t].Ops {
				op := &p.Tasks[t].Ops[k]
				verifhook.Yield(verifhook.SiteOpBoundary)
				var out string
				verifhook.BeginOp(opBudget)
				pan := core.Guard(func() { out = runTaskOp(op, ctxs[t], shared, sharedQ) })
				steps := verifhook.EndOp()
				conc[t][k] = opResult{out, pan, steps}
			}
			pick := 0
			if t < len(p.EndPick) {
				pick = p.EndPick[t]
			}
			verifhook.SchedTaskEnd(t, pick)
		}(t)
	}
	first := p.First % n
	ok := verifhook.SchedRun(first, 20*time.Second)
	if !ok {
		res.Violate("infra:watchdog", "a task neither yielded nor finished within 20 s of wall time (library goroutine, channel wait or real blocking)")
		return res
	}
	wg.Wait()
	switches, gsteps := verifhook.SchedTrace()
	res.Steps += gsteps
	races := verifhook.RaceErrors() - racesBefore

	// The concurrent phase runs FIRST so that lazily filled process-wide state is as cold as the
	// process history allows; the reference results are computed afterwards.
	// sequential twin: every operation alone, on a fresh parse, same service plans
	twin, total := runTwin()
	res.Steps += total

	plan := func() string {
		var b strings.Builder
		for i, s := range p.Shared {
			fmt.Fprintf(&b, "shared[%d]: %s\n", i, s)
		}
		for t := range p.Tasks {
			fmt.Fprintf(&b, "task %d:", t)
			for _, op := range p.Tasks[t].Ops {
				if op.Kind == "shared" {
					fmt.Fprintf(&b, " %s(shared[%d])", op.Op.Name, op.Shared)
				} else {
					fmt.Fprintf(&b, " %s(%.40q)", op.Kind, string(op.Text))
				}
			}
			b.WriteString("\n")
		}
		fmt.Fprintf(&b, "switches:")
		for _, s := range switches {
			fmt.Fprintf(&b, " %d→%d@%s", s.From, s.To, verifhook.SiteName(s.Site))
		}
		return b.String()
	}

	if twinBefore != nil {
		// reference results taken before the concurrent phase must agree with those taken after it:
		// a concurrent phase that leaves process-wide state poisoned would otherwise fool both
		for t := 0; t < n; t++ {
			for k := range twin[t] {
				a, b := twinBefore[t][k], twin[t][k]
				if (a.pan == nil) != (b.pan == nil) || (a.pan == nil && a.out != b.out) {
					name := p.Tasks[t].Ops[k].Kind
					if name == "shared" {
						name = "shared:" + p.Tasks[t].Ops[k].Op.Name
					}
					res.Violate("state-poisoned:"+name, fmt.Sprintf("task %d op %d (%s): the same call made alone gives a different result after the concurrent phase than before it\n  before: %s\n  after:  %s\n%s", t, k, name, clip(a.out), clip(b.out), plan()))
				}
			}
		}
	}


	// oracle 1: data races
	if races > 0 {
		log := readNewRaceLog()
		reps := parseRaceReports(log)
		if len(reps) == 0 {
			res.Violate("race{unparsed}", fmt.Sprintf("the race detector reported %d race(s) but the report could not be read\n%s", races, plan()))
		}
		for _, rp := range reps {
			if !rp.libA && !rp.libB {
				res.Violate("infra:race-without-library-frame", "race report with no influxql frame on either side (harness defect):\n"+rp.text)
				continue
			}
			res.Violate(rp.sig, fmt.Sprintf("data race reported by the Go race detector (tasks are causally unordered; execution was serial and is replayable)\n%s\n%s", strings.TrimSpace(clipRace(rp.text)), plan()))
		}
	}
	if frozen != nil {
		if d := frozen.Intact(); d != "" {
			res.Violate("shared-service-maps-modified", "the schema service shared by the tasks answers from maps it keeps; after the run they no longer match its schema: "+d+"\n"+plan())
		}
	}
	// oracle 2/3: every result equals the result of the same call made alone
	for t := 0; t < n; t++ {
		for k := range p.Tasks[t].Ops {
			a, c := twin[t][k], conc[t][k]
			name := p.Tasks[t].Ops[k].Kind
			if name == "shared" {
				name = "shared:" + p.Tasks[t].Ops[k].Op.Name
				res.Probe("shared-op")
			} else {
				res.Probe("independent-op")
			}
			res.Probe("twin-compared")
			switch {
			case c.pan != nil && a.pan == nil:
				res.Violate("concurrent-only-panic:"+name+":"+c.pan.Sig(), fmt.Sprintf("task %d op %d (%s) panicked under the concurrent schedule but not alone: %s\nstack: %v\n%s", t, k, name, c.pan.Msg, c.pan.Stack, plan()))
			case c.pan == nil && a.pan != nil:
				res.Violate("result-differs:"+name, fmt.Sprintf("task %d op %d (%s) panicked alone (%s) but not under the concurrent schedule\n%s", t, k, name, a.pan.Msg, plan()))
			case c.pan == nil && a.out != c.out:
				res.Violate("result-differs:"+name, fmt.Sprintf("task %d op %d (%s): result under the concurrent schedule differs from the same call made alone\n  alone:      %s\n  concurrent: %s\n%s", t, k, name, clip(a.out), clip(c.out), plan()))
			}
		}
	}
	// oracle 2b: "made alone" taken literally — the same calls in a fresh process
	if p.FreshTwin && len(res.Violations) == 0 {
		if ft, err := freshTwin(p); err != nil {
			res.Probe("fresh-twin-unavailable")
		} else {
			res.Probe("fresh-twin-compared")
			for t := 0; t < n && t < len(ft); t++ {
				for k := range twin[t] {
					if k >= len(ft[t]) {
						break
					}
					a, b := ft[t][k], twin[t][k]
					if a.Panicked != (b.pan != nil) || (!a.Panicked && a.Out != b.out) {
						name := p.Tasks[t].Ops[k].Kind
						if name == "shared" {
							name = "shared:" + p.Tasks[t].Ops[k].Op.Name
						}
						res.Violate("differs-from-fresh-process:"+name, fmt.Sprintf("task %d op %d (%s): the call made alone in this process (after its earlier operations) gives a different result than the same call in a fresh process\n  fresh process: %s\n  this process:  %s\n%s", t, k, name, clip(a.Out), clip(b.out), plan()))
					}
				}
			}
		}
	}
	// measures
	inside := false
	var sw strings.Builder
	for _, s := range switches {
		fmt.Fprintf(&sw, "%d>%d@%d;", s.From, s.To, s.Site)
		if s.Site != verifhook.SiteOpBoundary {
			inside = true
			res.Probe("switch-inside-op")
			res.Fault("preemption")
		}
		if s.Site == verifhook.SiteCallback {
			res.Probe("switch-in-callback")
		}
	}
	for t := range ctxs {
		for k, v := range ctxs[t].mapper.Fired {
			if k == "mapper-error" {
				for j := 0; j < v; j++ {
					res.Fault(k)
				}
			}
		}
	}
	if n >= 4 {
		res.Probe("tasks>=4")
	}
	if p.Hot {
		res.Probe("hot-op")
	}
	if len(p.Preempts) >= 4 {
		res.Probe("preempt>=4")
	}
	allShared, allIndep := true, true
	for t := range p.Tasks {
		for _, op := range p.Tasks[t].Ops {
			if op.Kind == "shared" {
				allIndep = false
			} else {
				allShared = false
			}
		}
	}
	if allShared {
		res.Probe("all-shared")
	}
	if allIndep {
		res.Probe("all-parse")
	}
	res.AddExtra("context_switches", float64(len(switches)))
	res.Nontrivial = n >= 2 && inside
	var tr strings.Builder
	for t := range conc {
		for _, r := range conc[t] {
			tr.WriteString(r.out)
			tr.WriteString("|")
		}
	}
	res.Trace = core.Hash64(tr.String() + sw.String())
	res.States = []uint64{core.Hash64(sw.String())}
	if d := os.Getenv("VERIF_DEBUG"); d != "" {
		if f, err := os.OpenFile(fmt.Sprintf("%s.%d", d, os.Getpid()), os.O_APPEND|os.O_CREATE|os.O_WRONLY, 0o644); err == nil {
			fmt.Fprintf(f, "TRACE %016x switches=%s gsteps=%d results=%q\n", res.Trace, sw.String(), gsteps, tr.String())
			f.Close()
		}
	}
	return res
}

// freshTwinDen: one run in freshTwinDen also computes its reference results in a fresh process
// (default: 1 in 200 in the quick tier, 1 in 100 in the thorough tier; VERIF_FRESH_TWIN_DEN overrides).
var freshTwinDen = func() int {
	if v, err := strconv.Atoi(os.Getenv("VERIF_FRESH_TWIN_DEN")); err == nil && v > 0 {
		return v
	}
	return 0
}()

// FreshOut is one reference result computed by `vsimeng twin` in a fresh process.
type FreshOut struct {
	Out      string `json:"out"`
	Panicked bool   `json:"panicked"`
}

// TwinOnly executes just the sequential reference phase of a plan (used by `vsimeng twin`).
func TwinOnly(p *C17Plan) [][]FreshOut {
	verifhook.SetOrder(p.Order)
	defer verifhook.SetOrder(verifhook.OrderPolicy{})
	out := make([][]FreshOut, len(p.Tasks))
	for t := range p.Tasks {
		ctx := newOpCtx(&p.Tasks[t].Env)
		if p.SharedMapper {
			ctx.fm = simschema.NewFrozenMapper(p.SharedSchema, true)
		}
		for k := range p.Tasks[t].Ops {
			sh := parseShared(p.Shared)
			op := &p.Tasks[t].Ops[k]
			var o string
			verifhook.BeginOp(opBudget)
			pan := core.Guard(func() { o = runTaskOp(op, ctx, sh, parseSharedQuery(p.SharedStmt)) })
			verifhook.EndOp()
			out[t] = append(out[t], FreshOut{Out: o, Panicked: pan != nil})
		}
	}
	return out
}

func freshTwin(p *C17Plan) ([][]FreshOut, error) {
	self, err := os.Executable()
	if err != nil {
		return nil, err
	}
	f, err := os.CreateTemp("", "verif-twin-*.json")
	if err != nil {
		return nil, err
	}
	defer os.Remove(f.Name())
	f.Write(core.PlanJSON(p))
	f.Close()
	cmd := exec.Command(self, "twin", f.Name())
	cmd.Env = append(os.Environ(), "GOMAXPROCS=1")
	b, err := cmd.Output()
	if err != nil {
		return nil, err
	}
	var out [][]FreshOut
	if err := json.Unmarshal(b, &out); err != nil {
		return nil, err
	}
	return out, nil
}

func clipRace(s string) string {
	lines := strings.Split(s, "\n")
	var out []string
	for _, l := range lines {
		if strings.Contains(l, "/verifhook.") || strings.Contains(l, "verifsim/") || strings.Contains(l, "vsimeng") {
			continue
		}
		out = append(out, l)
		if len(out) > 40 {
			break
		}
	}
	return strings.Join(out, "\n")
}

func (C17) Shrink(pi interface{}) []interface{} {
	p := pi.(*C17Plan)
	var out []interface{}
	cp := func() *C17Plan {
		q := &C17Plan{}
		b, _ := json.Marshal(p)
		_ = json.Unmarshal(b, q)
		return q
	}
	// drop tasks
	if len(p.Tasks) > 2 {
		for i := range p.Tasks {
			q := cp()
			q.Tasks = append(q.Tasks[:i:i], q.Tasks[i+1:]...)
			if len(q.EndPick) > i {
				q.EndPick = append(q.EndPick[:i:i], q.EndPick[i+1:]...)
			}
			out = append(out, q)
		}
	}
	// drop operations
	for t := range p.Tasks {
		if len(p.Tasks[t].Ops) > 1 {
			for k := range p.Tasks[t].Ops {
				q := cp()
				q.Tasks[t].Ops = append(q.Tasks[t].Ops[:k:k], q.Tasks[t].Ops[k+1:]...)
				out = append(out, q)
			}
		}
	}
	if len(p.AtomicPreempts) > 0 {
		q := cp()
		q.AtomicPreempts = nil
		out = append(out, q)
		for i := range p.AtomicPreempts {
			q := cp()
			q.AtomicPreempts = append(q.AtomicPreempts[:i:i], q.AtomicPreempts[i+1:]...)
			out = append(out, q)
		}
	}
	// drop preemptions
	if len(p.Preempts) > 0 {
		q := cp()
		q.Preempts = nil
		out = append(out, q)
		for i := range p.Preempts {
			q := cp()
			q.Preempts = append(q.Preempts[:i:i], q.Preempts[i+1:]...)
			out = append(out, q)
		}
	}
	// simplify services
	for t := range p.Tasks {
		for _, e := range shrinkEnv(p.Tasks[t].Env) {
			q := cp()
			e.Valuer.Yield = true
			e.MFaults.YieldInCall = true
			q.Tasks[t].Env = e
			out = append(out, q)
		}
	}
	// shrink shared statements and own texts
	for i, s := range p.Shared {
		for k, t := range gen.ShrinkText(s) {
			if k > 80 {
				break
			}
			q := cp()
			q.Shared[i] = t
			out = append(out, q)
		}
	}
	for t := range p.Tasks {
		for k, op := range p.Tasks[t].Ops {
			if op.Kind == "shared" || len(op.Text) < 12 {
				continue
			}
			for j, s := range gen.ShrinkText(string(op.Text)) {
				if j > 30 {
					break
				}
				q := cp()
				q.Tasks[t].Ops[k].Text = core.RawStr(s)
				out = append(out, q)
			}
		}
	}
	return out
}
