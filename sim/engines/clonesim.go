package engines

import (
	"encoding/json"
	"fmt"
	"reflect"
	"regexp"
	"strings"
	"time"

	"github.com/influxdata/influxql"
	"github.com/influxdata/influxql/verifhook"

	"verifsim/core"
	"verifsim/gen"
)

// C14 — opsim/clones: histories of mutations by several owners over a statement and its clones
// (DESIGN.md §4 C14).

type C14Plan struct {
	Text       string `json:"text"`
	Env        OpEnv  `json:"env"`
	Steps      []Op   `json:"steps"`
	Exhaustive bool   `json:"exhaustive"` // afterwards poke every mutable site of original and clone once
}

type C14 struct{}

func (C14) Meta() core.Meta {
	return core.Meta{
		Property: "C14", Engine: "opsim", Level: "exploration",
		Rule: "A case = (generated SELECT text with INTO / subqueries / regex sources / every clause, schema + mapper faults, valuer, a drawn history of steps by several owners: clone, clone-expression, poke one mutable site, in-place rewrite, derived operation). After EVERY step all ASTs are re-fingerprinted (exported structure): a clone equals its source at clone time; a step by one owner changes no other AST; a derived operation changes nothing. In the exhaustive stratum every mutable site (exported field, slice element, slice header, pointer/interface slot) of the statement and of its clone is poked once. Non-trivial = at least one clone and at least one mutation or in-place rewrite executed. Distinct = distinct plan hash.",
		Assumptions: []string{
			"structural identity is judged on exported fields (the unexported GroupByInterval memo is not observable through the API)",
			"sharing of immutable values (*regexp.Regexp, *time.Location) is allowed: independence is behavioural (a change on one side must not show on the other)",
			"the space of statements and histories is sampled; mutable sites per AST are enumerated in the exhaustive stratum",
		},
		Real:       []string{"influxql parser, Clone, CloneExpr, in-place rewrites, Reduce, RewriteFields, evaluation, printers (instrumented copy of the working tree)"},
		Stub:       []string{"meta store (simschema.Mapper)", "point valuer / clock (simschema.Valuer)"},
		ProbeNames: []string{"clone", "clone-expr", "poke", "inplace", "derived", "exhaustive-sites", "has-target", "has-subquery", "has-regex-source", "mapper-fault-during-derived", "result-poked", "derived-result-kept"},
		FaultNames: []string{"mapper-error"},
	}
}

func (C14) Runs(tier string) uint64 {
	if tier == "thorough" {
		return 1500000
	}
	return 200000
}

var inplaceOps = []string{"RewriteRegexConditions", "RewriteDistinct", "RewriteTimeFields", "SetTimeRange", "RewriteMutate", "RewriteExprMutate", "GroupByInterval"}
var derivedOps = []string{"Reduce", "RewriteFields", "String", "ColumnNames", "Names", "AliasNames", "RequiredPrivileges", "WalkFunc", "EvalFields", "EvalType", "ConditionExpr", "ReduceExpr", "FieldDimensions", "HasWildcard", "ExprNames", "FieldExprByName", "Normalize", "GroupByOffset", "Measurements", "Eval", "EvalBool", "TypeValuerEval", "BinaryExprName", "CloneExpr", "HasTimeExpr", "TimeAscending", "RewriteFieldsNilMapper", "TimeRangeMethods", "PartitionExpr", "ConjunctionsRoundTrip", "SortFields", "ListStrings"}

func (C14) NewPlan(r *core.Rand, tier string, i uint64) interface{} {
	p := &C14Plan{}
	o := gen.Opts{MaxDepth: r.Intn(3), Wild: r.Range(0, 6), Odd: r.Range(0, 3), Into: true, TimeCond: true, AllClauses: r.Chance(2, 3)}
	p.Text = gen.Select(r, o, 0)
	p.Env = genEnv(r)
	p.Env.MFaults.CallTypeErr, p.Env.MFaults.UnknownAt = nil, nil
	n := r.Range(2, 14)
	for k := 0; k < n; k++ {
		st := Op{Target: r.Intn(8), Arg: r.Intn(1000), Site: r.Intn(100000)}
		switch r.Weighted([]int{3, 1, 5, 3, 4}) {
		case 0:
			st.Name = "clone"
		case 1:
			st.Name = "clone-expr"
		case 2:
			st.Name = "poke"
		case 3:
			st.Name = "inplace:" + inplaceOps[r.Intn(len(inplaceOps))]
		case 4:
			st.Name = "derived:" + derivedOps[r.Intn(len(derivedOps))]
		}
		if k == 0 {
			st.Name = "clone"
		}
		p.Steps = append(p.Steps, st)
	}
	p.Exhaustive = tier == "thorough" && r.Chance(1, 3) || tier != "thorough" && r.Chance(1, 8)
	return p
}

func (C14) Decode(b []byte) (interface{}, error) {
	p := &C14Plan{}
	return p, json.Unmarshal(b, p)
}

// ---- mutable-site enumerator ---------------------------------------------------------------

type site struct {
	path string
	poke func()
}

var (
	tExpr      = reflect.TypeOf((*influxql.Expr)(nil)).Elem()
	tSource    = reflect.TypeOf((*influxql.Source)(nil)).Elem()
	tStatement = reflect.TypeOf((*influxql.Statement)(nil)).Elem()
	tEmpty     = reflect.TypeOf((*interface{})(nil)).Elem()
)

// freshFor builds a fresh, valid value of a node type (for replacing children and filling slices).
func freshFor(t reflect.Type, k int) (reflect.Value, bool) {
	switch t {
	case tExpr:
		var e influxql.Expr
		switch k % 3 {
		case 0:
			e = &influxql.StringLiteral{Val: "poked"}
		case 1:
			e = &influxql.VarRef{Val: "poked"}
		default:
			e = &influxql.IntegerLiteral{Val: 4242}
		}
		return reflect.ValueOf(&e).Elem(), true
	case tSource:
		var s influxql.Source = &influxql.Measurement{Name: "poked"}
		return reflect.ValueOf(&s).Elem(), true
	case tEmpty:
		var v interface{} = int64(4242)
		return reflect.ValueOf(&v).Elem(), true
	case tRegexp2:
		return reflect.ValueOf(regexp.MustCompile("poked")), true
	case tLoc2:
		return reflect.ValueOf(time.FixedZone("poked", 3600)), true
	}
	if t.Kind() == reflect.Ptr && t.Elem().Kind() == reflect.Struct && t.Elem().PkgPath() == pkgPath {
		v := reflect.New(t.Elem())
		// make it printable: fill Expr / Measurement children
		el := v.Elem()
		for i := 0; i < el.NumField(); i++ {
			f := el.Field(i)
			if !f.CanSet() {
				continue
			}
			switch {
			case f.Type() == tExpr:
				if fv, ok := freshFor(tExpr, k+1); ok {
					f.Set(fv)
				}
			case f.Type() == tRegexp2:
				f.Set(reflect.ValueOf(regexp.MustCompile("poked"))) // a regex literal always carries a regex
			case f.Kind() == reflect.String:
				f.SetString("poked")
			case f.Type() == reflect.TypeOf((*influxql.Measurement)(nil)):
				f.Set(reflect.ValueOf(&influxql.Measurement{Name: "poked"}))
			case f.Type() == reflect.TypeOf((*influxql.RegexLiteral)(nil)):
				// leave nil
			case f.Type() == reflect.TypeOf((*influxql.SelectStatement)(nil)):
				st, _ := influxql.ParseStatement("SELECT poked FROM poked")
				f.Set(reflect.ValueOf(st))
			}
		}
		return v, true
	}
	return reflect.Value{}, false
}

var (
	tRegexp2 = reflect.TypeOf((*regexp.Regexp)(nil))
	tLoc2    = reflect.TypeOf((*time.Location)(nil))
	pkgPath  = reflect.TypeOf(influxql.SelectStatement{}).PkgPath()
)

// sites enumerates every settable location reachable from root through exported fields.
func sites(root interface{}) []site {
	var out []site
	seen := map[uintptr]bool{}
	var walk func(v reflect.Value, path string, depth int)
	walk = func(v reflect.Value, path string, depth int) {
		if depth > 60 || !v.IsValid() {
			return
		}
		switch v.Kind() {
		case reflect.Ptr:
			if v.Type() == tRegexp2 || v.Type() == tLoc2 {
				if v.CanSet() {
					t := v.Type()
					vv := v
					out = append(out, site{path + "=replace", func() {
						if f, ok := freshFor(t, 0); ok {
							vv.Set(f)
						}
					}})
				}
				return
			}
			if v.IsNil() {
				return
			}
			if seen[v.Pointer()] {
				return
			}
			seen[v.Pointer()] = true
			if v.CanSet() {
				t := v.Type()
				vv := v
				if _, ok := freshFor(t, 0); ok {
					out = append(out, site{path + "=retarget", func() {
						if f, ok := freshFor(t, len(path)); ok {
							vv.Set(f)
						}
					}})
				}
			}
			walk(v.Elem(), path, depth+1)
		case reflect.Interface:
			if v.IsNil() {
				return
			}
			if v.CanSet() {
				t := v.Type()
				vv := v
				if _, ok := freshFor(t, 0); ok {
					out = append(out, site{path + "=replace", func() {
						if f, ok := freshFor(t, len(path)); ok {
							vv.Set(f)
						}
					}})
				}
			}
			walk(v.Elem(), path, depth+1)
		case reflect.Struct:
			if v.Type() == reflect.TypeOf(time.Time{}) {
				if v.CanSet() {
					vv := v
					out = append(out, site{path + "=+1ns", func() {
						vv.Set(reflect.ValueOf(vv.Interface().(time.Time).Add(time.Nanosecond)))
					}})
				}
				return
			}
			t := v.Type()
			for i := 0; i < t.NumField(); i++ {
				if t.Field(i).PkgPath != "" {
					continue
				}
				walk(v.Field(i), path+"."+t.Field(i).Name, depth+1)
			}
		case reflect.Slice:
			n := v.Len()
			et := v.Type().Elem()
			if v.CanSet() {
				vv := v
				if n >= 2 {
					out = append(out, site{path + "=swap", func() {
						if vv.Len() >= 2 {
							a, b := vv.Index(0).Interface(), vv.Index(vv.Len()-1).Interface()
							vv.Index(0).Set(reflect.ValueOf(b))
							vv.Index(vv.Len() - 1).Set(reflect.ValueOf(a))
						}
					}})
				}
				if n >= 1 {
					out = append(out, site{path + "=truncate", func() {
						if vv.Len() >= 1 {
							vv.Set(vv.Slice(0, vv.Len()-1))
						}
					}})
				}
				if _, ok := freshFor(et, 0); ok {
					out = append(out, site{path + "=append", func() {
						if f, ok := freshFor(et, 1); ok {
							vv.Set(reflect.Append(vv, f))
						}
					}})
				}
			}
			for i := 0; i < n; i++ {
				e := v.Index(i)
				if _, ok := freshFor(et, 0); ok {
					ee := e
					out = append(out, site{fmt.Sprintf("%s[%d]=overwrite", path, i), func() {
						if f, ok := freshFor(et, i); ok {
							ee.Set(f)
						}
					}})
				}
				walk(e, fmt.Sprintf("%s[%d]", path, i), depth+1)
			}
		case reflect.String:
			if v.CanSet() {
				vv := v
				out = append(out, site{path + "=+~", func() { vv.SetString(vv.String() + "~") }})
			}
		case reflect.Bool:
			if v.CanSet() {
				vv := v
				out = append(out, site{path + "=flip", func() { vv.SetBool(!vv.Bool()) }})
			}
		case reflect.Int, reflect.Int8, reflect.Int16, reflect.Int32, reflect.Int64:
			if v.CanSet() {
				vv := v
				if vv.Type().Name() == "Token" || vv.Type().Name() == "DataType" || vv.Type().Name() == "FillOption" {
					// enumerations: stay inside the defined range so that printing stays meaningful
					out = append(out, site{path + "=enum", func() {
						x := vv.Int()
						if x > 1 {
							vv.SetInt(x - 1)
						} else {
							vv.SetInt(x + 1)
						}
					}})
				} else {
					out = append(out, site{path + "=+1", func() { vv.SetInt(vv.Int() + 1) }})
				}
			}
		case reflect.Uint, reflect.Uint8, reflect.Uint16, reflect.Uint32, reflect.Uint64:
			if v.CanSet() {
				vv := v
				out = append(out, site{path + "=+1", func() { vv.SetUint(vv.Uint() + 1) }})
			}
		case reflect.Float32, reflect.Float64:
			if v.CanSet() {
				vv := v
				out = append(out, site{path + "=+1", func() { vv.SetFloat(vv.Float() + 1) }})
			}
		}
	}
	walk(reflect.ValueOf(root), "", 0)
	return out
}

// ---- execution ---------------------------------------------------------------------------------

type astRoot struct {
	node  interface{} // *influxql.SelectStatement or *exprBox
	lines []string
	label string
}

type exprBox struct{ E influxql.Expr }

func (C14) Exec(pi interface{}) *core.RunResult {
	p := pi.(*C14Plan)
	res := &core.RunResult{}
	st0, err := influxql.ParseStatement(p.Text)
	if err != nil {
		res.Skipped = "text not accepted"
		return res
	}
	sel, ok := st0.(*influxql.SelectStatement)
	if !ok {
		res.Skipped = "not a SELECT"
		return res
	}
	if sel.Target != nil {
		res.Probe("has-target")
	}
	for _, s := range sel.Sources {
		switch x := s.(type) {
		case *influxql.SubQuery:
			res.Probe("has-subquery")
		case *influxql.Measurement:
			if x.Regex != nil {
				res.Probe("has-regex-source")
			}
		}
	}
	ctx := newOpCtx(&p.Env)
	roots := []*astRoot{{node: sel, lines: core.Lines(sel), label: "original"}}
	var trace strings.Builder
	cloned, mutated := false, false
	history := func(upto int) string {
		var b []string
		for _, s := range p.Steps[:upto+1] {
			b = append(b, fmt.Sprintf("%s@%d", s.Name, s.Target%len8(roots)))
		}
		return strings.Join(b, " → ")
	}
	// recheck compares every root with its recorded fingerprint; `may` is the one root allowed to change.
	recheck := func(stepIdx int, stepName string, may int) bool {
		okAll := true
		for i, r := range roots {
			now := core.Lines(r.node)
			if d := core.Diff(r.lines, now); d != "" && i != may {
				kind := "independence"
				if strings.HasPrefix(stepName, "derived:") {
					kind = "receiver-changed"
					if i != -2 {
					}
				}
				who := "another AST"
				if strings.HasPrefix(stepName, "derived:") {
					who = "an AST (derived operations must change nothing)"
				}
				res.Violate(fmt.Sprintf("%s:%s:%s", kind, opClass(stepName), core.DiffPath(r.lines, now)),
					fmt.Sprintf("step %d (%s) changed %s: %s [%s]: %s\ntext: %s\nhistory: %s", stepIdx, stepName, who, r.label, roots[i].label, d, p.Text, history(stepIdx)))
				okAll = false
			}
			r.lines = now
		}
		return okAll
	}
	for i, stp := range p.Steps {
		ti := stp.Target % len(roots)
		r := roots[ti]
		name := stp.Name
		var pan *core.PanicInfo
		verifhook.BeginOp(opBudget)
		switch {
		case name == "clone":
			var cl interface{}
			pan = core.Guard(func() {
				switch x := r.node.(type) {
				case *influxql.SelectStatement:
					cl = x.Clone()
				case *exprBox:
					cl = &exprBox{E: influxql.CloneExpr(x.E)}
				}
			})
			if pan == nil && cl != nil {
				cloned = true
				res.Probe("clone")
				cl2 := &astRoot{node: cl, lines: core.Lines(cl), label: fmt.Sprintf("clone#%d of %s", len(roots), r.label)}
				if d := core.Diff(r.lines, cl2.lines); d != "" {
					res.Violate("clone-fidelity:"+core.DiffPath(r.lines, cl2.lines), fmt.Sprintf("clone differs from its source at clone time: %s\ntext: %s\nhistory: %s", d, p.Text, history(i)))
				}
				if len(roots) < 8 {
					roots = append(roots, cl2)
				}
			}
			recheck(i, name, -1)
		case name == "clone-expr":
			if s, ok := r.node.(*influxql.SelectStatement); ok {
				var e influxql.Expr
				src := pickExpr(s, stp.Arg)
				pan = core.Guard(func() { e = influxql.CloneExpr(src) })
				if pan == nil && e != nil {
					cloned = true
					res.Probe("clone-expr")
					a, b := core.Lines(&exprBox{src}), core.Lines(&exprBox{e})
					if d := core.Diff(a, b); d != "" {
						res.Violate("clone-fidelity:expr"+core.DiffPath(a, b), fmt.Sprintf("CloneExpr result differs from its source: %s\ntext: %s", d, p.Text))
					}
					if len(roots) < 8 {
						roots = append(roots, &astRoot{node: &exprBox{e}, lines: b, label: fmt.Sprintf("expr-clone#%d of %s", len(roots), r.label)})
					}
				}
			}
			recheck(i, name, -1)
		case name == "poke":
			ss := sites(r.node)
			if len(ss) > 0 {
				s := ss[stp.Site%len(ss)]
				pan = core.Guard(s.poke)
				mutated = true
				res.Probe("poke")
				name = "poke " + s.path
			}
			recheck(i, name, ti)
		case strings.HasPrefix(name, "inplace:"):
			if s, ok := r.node.(*influxql.SelectStatement); ok {
				op := Op{Name: strings.TrimPrefix(name, "inplace:"), Arg: stp.Arg}
				pan = core.Guard(func() { applyInplace(ctx, s, op) })
				mutated = true
				res.Probe("inplace")
			}
			recheck(i, name, ti)
		case strings.HasPrefix(name, "derived:"):
			if s, ok := r.node.(*influxql.SelectStatement); ok {
				op := Op{Name: strings.TrimPrefix(name, "derived:"), Arg: stp.Arg, Keep: true}
				var repl *influxql.SelectStatement
				if op.Name == "RewriteFieldsNilMapper" {
					// a nil mapper is the caller's mistake; whatever happens, the receiver must not be
					// handed back as the "rewritten" statement
					pan = core.Guard(func() { repl, _ = s.RewriteFields(nil) })
					if pan != nil {
						pan = nil // not this property's business; the history goes on
						repl = nil
					}
				} else {
					pan = core.Guard(func() { _, repl = ctx.applySelectOp(s, op) })
				}
				res.Probe("derived")
				if ctx.mapper.Fired["mapper-error"] > 0 {
					res.Probe("mapper-fault-during-derived")
				}
				if recheck(i, name, -1) && repl != nil && pan == nil && stp.Arg%2 == 0 {
					// the result is a fresh tree: poking it must change nothing else
					ss := sites(repl)
					for k := 0; k < 6 && k < len(ss); k++ {
						s := ss[(stp.Site+k*7919)%len(ss)]
						if pp := core.Guard(s.poke); pp == nil {
							res.Probe("result-poked")
							recheck(i, "poke-result-of-"+op.Name+" "+s.path, -1)
						}
					}
				} else if repl != nil && pan == nil && len(roots) < 8 && len(res.Violations) == 0 {
					// the derived statement joins the cache: later steps clone and mutate it too
					roots = append(roots, &astRoot{node: repl, lines: core.Lines(repl), label: fmt.Sprintf("result#%d of %s", len(roots), op.Name)})
					res.Probe("derived-result-kept")
				}
			} else {
				recheck(i, name, -1)
			}
		}
		res.Steps += verifhook.EndOp()
		if pan != nil && pan.Class != "budget" {
			// panics are C13's business; a history that panics is cut short here
			res.Probe("history-cut-by-panic")
			break
		}
		trace.WriteString(name + ";")
	}
	for k, v := range ctx.mapper.Fired {
		for j := 0; j < v; j++ {
			res.Fault(k)
		}
	}
	// exhaustive stratum: every mutable site of a fresh parse and of its clone, once each
	if p.Exhaustive && len(res.Violations) == 0 {
		st1, _ := influxql.ParseStatement(p.Text)
		orig := st1.(*influxql.SelectStatement)
		var clone *influxql.SelectStatement
		if pan := core.Guard(func() { clone = orig.Clone() }); pan == nil && clone != nil {
			for side := 0; side < 2; side++ {
				a, b := orig, clone
				la, lb := "original", "clone"
				if side == 1 {
					a, b = clone, orig
					la, lb = "clone", "original"
				}
				before := core.Lines(b)
				for _, s := range sites(a) {
					if pan := core.Guard(s.poke); pan != nil {
						continue
					}
					res.Probe("exhaustive-sites")
					now := core.Lines(b)
					if d := core.Diff(before, now); d != "" {
						res.Violate("independence:poke:"+core.DiffPath(before, now), fmt.Sprintf("poking %s of the %s (%s) changed the %s: %s\ntext: %s", s.path, la, "site "+s.path, lb, d, p.Text))
						before = now
					}
				}
			}
			cloned, mutated = true, true
		}
	}
	res.Nontrivial = cloned && mutated
	res.Trace = core.Hash64(trace.String() + fmt.Sprint(len(roots)))
	res.States = []uint64{core.Hash64(trace.String())}
	return res
}

func len8(r []*astRoot) int {
	if len(r) == 0 {
		return 1
	}
	return len(r)
}

func opClass(step string) string {
	if i := strings.IndexByte(step, ' '); i > 0 {
		step = step[:i]
	}
	return step
}

func applyInplace(c *opCtx, s *influxql.SelectStatement, op Op) {
	switch op.Name {
	case "RewriteRegexConditions":
		s.RewriteRegexConditions()
	case "RewriteDistinct":
		s.RewriteDistinct()
	case "RewriteTimeFields":
		s.RewriteTimeFields()
	case "SetTimeRange":
		a, b := windowFor(op.Arg)
		_ = s.SetTimeRange(a, b)
	case "GroupByInterval":
		_, _ = s.GroupByInterval()
	case "RewriteMutate":
		// a rewriter that edits nodes in place (the way planners annotate trees)
		k := 0
		influxql.RewriteFunc(s, func(n influxql.Node) influxql.Node {
			k++
			switch x := n.(type) {
			case *influxql.VarRef:
				if (k+op.Arg)%2 == 0 {
					x.Val += "~"
				}
			case *influxql.Call:
				if (k+op.Arg)%3 == 0 && len(x.Args) > 0 {
					x.Args[0] = &influxql.VarRef{Val: "rewritten"}
				}
			case *influxql.StringLiteral:
				x.Val += "~"
			case *influxql.Measurement:
				x.Name += "~"
			case *influxql.IntegerLiteral:
				x.Val++
			case *influxql.BinaryExpr:
				if (k+op.Arg)%5 == 0 {
					x.LHS, x.RHS = x.RHS, x.LHS
				}
			}
			return n
		})
	case "RewriteExprMutate":
		k := 0
		s.Condition = influxql.RewriteExpr(s.Condition, func(e influxql.Expr) influxql.Expr {
			k++
			switch x := e.(type) {
			case *influxql.VarRef:
				x.Type = influxql.String
			case *influxql.NumberLiteral:
				x.Val += 1
			case *influxql.RegexLiteral:
				if (k+op.Arg)%2 == 0 {
					return &influxql.StringLiteral{Val: "was-regex"}
				}
			}
			return e
		})
		for _, f := range s.Fields {
			f.Expr = influxql.RewriteExpr(f.Expr, func(e influxql.Expr) influxql.Expr {
				if c, ok := e.(*influxql.Call); ok {
					c.Name += "_x"
				}
				return e
			})
		}
	}
}

func (C14) Shrink(pi interface{}) []interface{} {
	p := pi.(*C14Plan)
	var out []interface{}
	cp := func() *C14Plan {
		q := &C14Plan{}
		b, _ := json.Marshal(p)
		_ = json.Unmarshal(b, q)
		return q
	}
	if p.Exhaustive && len(p.Steps) > 0 {
		q := cp()
		q.Steps = nil
		out = append(out, q)
	}
	if p.Exhaustive {
		q := cp()
		q.Exhaustive = false
		out = append(out, q)
	}
	for i := range p.Steps {
		q := cp()
		q.Steps = append(q.Steps[:i:i], q.Steps[i+1:]...)
		out = append(out, q)
	}
	for _, e := range shrinkEnv(p.Env) {
		q := cp()
		q.Env = e
		out = append(out, q)
	}
	for _, t := range gen.ShrinkText(p.Text) {
		q := cp()
		q.Text = t
		out = append(out, q)
	}
	return out
}
