// Package engines holds the five simulation engines (DESIGN.md §3, §4).
package engines

import "verifsim/core"

func All() []core.Engine {
	return []core.Engine{C04{}, C05{}, C12{}, C13{}, C14{}, C17{}, C18{}}
}
