#!/usr/bin/env bash
# benign.sh [name ...] : property-preserving edits must stay silent. For each patch in /verif/benign:
# apply to a scratch copy of /repo HEAD, run the repository's tests, then every quick check; all must exit 0.
export GOFLAGS=-mod=mod GOPROXY=off GOSUMDB=off GOTOOLCHAIN=local
cd /verif
names=("$@"); [ ${#names[@]} -gt 0 ] || names=($(ls benign/*.diff | xargs -n1 basename | sed 's/\.diff$//'))
rc=0
for n in "${names[@]}"; do
  M=$(mktemp -d /tmp/benign.XXXXXX)
  git -C /repo archive HEAD | tar -x -C $M
  (cd $M && git init -q . >/dev/null 2>&1 && git apply --whitespace=nowarn /verif/benign/$n.diff) || { echo "$n: patch does not apply"; rc=1; rm -rf $M; continue; }
  (cd $M && go test -vet=off -count=1 . >/dev/null 2>&1) || { echo "$n: repository tests fail with the patch (not a valid benign edit)"; rc=1; rm -rf $M; continue; }
  line="$n:"
  for p in ${BENIGN_PROPS:-C04 C05 C12 C13 C14 C17 C18}; do
    out=$(VERIF_REPO=$M ./vsim check $p ${BENIGN_ARGS:-} 2>&1); e=$?
    line="$line $p=$e"
    if [ $e != 0 ]; then rc=1; echo "$out" | grep -v "^KNOWN\|^      " | head -12; fi
  done
  echo "$line"
  rm -rf $M
done
git -C /verif checkout -- evidence 2>/dev/null; git -C /verif clean -fdq replays evidence 2>/dev/null
exit $rc
