#!/usr/bin/env bash
# seedrun.sh <seed-id> <prop> [extra vsim args]: run a check against /repo with a seeded change applied to a scratch copy
# (the final confirmation in seeded/*/meta.json uses `git -C /repo apply` as the brief prescribes; this helper is for iteration)
id=$1; prop=$2; shift 2
M=$(mktemp -d /tmp/seedrun.XXXXXX)
git -C /repo archive HEAD | tar -x -C $M
(cd $M && git init -q . >/dev/null 2>&1 && git apply --whitespace=nowarn /verif/seeded/$id/patch.diff) || { echo "apply failed"; rm -rf $M; exit 3; }
mkdir -p /tmp/seedrun-out
VERIF_REPO=$M VERIF_OUT=/tmp/seedrun-out /verif/vsim check $prop "$@" 2>&1 | grep -v "^KNOWN" | cut -c1-400 | head -${LINES_MAX:-12}
rc=${PIPESTATUS[0]}
rm -rf $M
git -C /verif checkout -- evidence 2>/dev/null; git -C /verif clean -fdq replays evidence 2>/dev/null
exit $rc
