#!/usr/bin/env bash
# confirm_seed.sh <seed-dir-with-patch.diff-and-zz_demo_test.go> : independently confirm a seeded change
#   1. patch applies to /repo HEAD (scratch copy), builds, the existing test suite passes with it
#   2. the demonstration fails with the change and passes without it
# prints one line: <name> OK|BAD <reason>
export GOFLAGS=-mod=mod GOPROXY=off GOSUMDB=off GOTOOLCHAIN=local
d="$1"; name="$(basename "$d")"
W=$(mktemp -d /tmp/confirm.XXXXXX); trap 'rm -rf "$W"' EXIT
git -C /repo archive HEAD | tar -x -C "$W"
cd "$W"
git init -q . >/dev/null 2>&1
if ! git apply --whitespace=nowarn "$d/patch.diff" 2>"$W/apply.err"; then echo "$name BAD patch does not apply: $(head -2 $W/apply.err | tr '\n' ' ')"; exit 1; fi
if ! go build ./... 2>"$W/b.err"; then echo "$name BAD does not build"; exit 1; fi
if ! go test -vet=off -count=1 . >"$W/t.out" 2>&1; then echo "$name BAD existing tests fail with the change"; tail -5 "$W/t.out"; exit 1; fi
cp "$d/zz_demo_test.go" "$W/zz_demo_test.go"
race=""; grep -q "race" "$d/notes.md" 2>/dev/null && race="-race"
timeout 300 go test -vet=off -count=1 -run . ./ >"$W/d1.out" 2>&1; with=$?
if [ $with = 0 ] && [ -n "$race" ]; then timeout 600 go test -race -vet=off -count=1 . >"$W/d1.out" 2>&1; with=$?; fi
git apply -R --whitespace=nowarn "$d/patch.diff"
timeout 300 go test -vet=off -count=1 . >"$W/d2.out" 2>&1; without=$?
if [ $with = 0 ]; then echo "$name BAD demo passes with the change"; exit 1; fi
if [ $without != 0 ]; then echo "$name BAD demo fails without the change"; tail -5 "$W/d2.out"; exit 1; fi
echo "$name OK (demo fails with change [exit $with], passes without)"
