module vsiminstrument

go 1.23
